package local

// C16 — the controllable catalog: a fault-injecting RPC delegate backed by a real state.Store.
//
// Catalog.Register / Catalog.Deregister / Catalog.NodeServiceList / Catalog.NodeServices / Health.NodeChecks are
// served the way the server endpoints (agent/consul/catalog_endpoint.go, health_endpoint.go) and the FSM
// (fsm/commands_ce.go applyRegister / applyDeregister) serve them with ACLs disabled: the request is copied through
// msgpack exactly like raftApply + FSM decode do (so nothing the store does to the request leaks back into the agent's
// local state), the endpoint's request fix-ups that matter are applied (Check -> Checks, check.Node, check.Type), and
// the write is applied to the store at a raft index the harness increases monotonically.

import (
	"context"
	"errors"
	"fmt"
	"sort"
	"strings"

	"github.com/hashicorp/consul/acl"
	"github.com/hashicorp/consul/acl/resolver"
	"github.com/hashicorp/consul/agent/consul/state"
	"github.com/hashicorp/consul/agent/structs"
	"github.com/hashicorp/consul/types"
)

const (
	verifC16Node   = "n1"
	verifC16NodeID = types.NodeID("11111111-2222-3333-4444-555555555555")
	verifC16Addr   = "10.0.0.1"
	verifC16DC     = "dc1"
)

// verifC16Fault is one rule of a fault plan (also a replay op, K = "fault").
//
// A rule addresses RPCs of sync op number Sync (0-based count of sync ops of the scenario; -1 = every sync op) either
// by exact descriptor (Desc, e.g. "reg:web-1:c1", "dereg-chk:c2", "read-checks") or by carried entity (Ent, e.g.
// "svc:web-1", "chk:c1", "node", "read"). Among the matching RPCs of one sync op the Occ-th fails (All: every one).
// Addressing is by content, not by call order, because the State iterates maps: the order of RPCs inside one sync is
// not defined, their multiset is.
type verifC16Fault struct {
	K    string `json:"k"`
	Sync int    `json:"sync"`
	Desc string `json:"desc,omitempty"`
	Ent  string `json:"ent,omitempty"`
	Occ  int    `json:"occ,omitempty"`
	All  bool   `json:"all,omitempty"`
	Kind string `json:"kind"`
}

// Fault kinds. "applied" kinds model a lost reply: the write reached the catalog, the caller sees an error.
var verifC16Kinds = []string{
	"err",         // generic transport error, nothing applied
	"err-applied", // write applied, generic error returned (lost reply)
	"perm",        // typed acl.PermissionDeniedError (in-process server agent)
	"perm-rpc",    // "Permission denied" as a plain string error (what crosses net/rpc)
	"aclnotfound", // acl.ErrNotFound
	"unknown",     // deregistration applied, then the endpoint's "Unknown service ID"/"Unknown check ID" answer to the retry
	// (truthful by construction: a real server only says so when the entry is absent); on a registration:
	// vetRegisterWithACL's "Unknown service ID 'x' for check ID 'y'", nothing applied.
}

func verifC16IsACLKind(k string) bool { return k == "perm" || k == "perm-rpc" || k == "aclnotfound" }

type verifC16RPCRec struct {
	Desc    string
	Ents    []string
	Write   bool
	Fault   string // kind that fired, "" if none
	OK      bool
	Natural string // error the catalog itself returned (no fault)
}

type verifC16Catalog struct {
	store *state.Store
	idx   uint64
	wire  bool // replies are copied through msgpack (client agent) instead of sharing store objects (server agent)

	plan     []verifC16Fault
	noFaults bool
	curSync  int
	matches  map[int]int // rule index -> matches seen in the current sync op

	// log of the current sync op
	calls []verifC16RPCRec
	// set when both reads of updateSyncState were served in the current sync op
	readSvcOK, diffDone bool
	onDiff              func()
}

func verifC16NewCatalog(wire bool) *verifC16Catalog {
	c := &verifC16Catalog{store: state.NewStateStore(nil), idx: 10, wire: wire, matches: map[int]int{}}
	// virtual IPs enabled, as on any cluster whose servers all support them: connect-native services get the
	// server-owned "consul-virtual" tagged address.
	if err := c.store.SystemMetadataSet(c.next(), &structs.SystemMetadataEntry{Key: structs.SystemMetadataVirtualIPsEnabled, Value: "true"}); err != nil {
		panic(err)
	}
	return c
}

func (c *verifC16Catalog) next() uint64 { c.idx++; return c.idx }

func (c *verifC16Catalog) beginSync(i int, noFaults bool) {
	c.curSync, c.noFaults = i, noFaults
	c.matches = map[int]int{}
	c.calls = nil
	c.readSvcOK, c.diffDone = false, false
}

func verifC16Copy(in, out interface{}) {
	buf, err := structs.Encode(0, in)
	if err != nil {
		panic(fmt.Sprintf("verifC16Copy encode %T: %v", in, err))
	}
	if err := structs.Decode(buf[1:], out); err != nil {
		panic(fmt.Sprintf("verifC16Copy decode %T: %v", out, err))
	}
}

func (c *verifC16Catalog) ResolveTokenAndDefaultMeta(string, *acl.EnterpriseMeta, *acl.AuthorizerContext) (resolver.Result, error) {
	return resolver.Result{}, acl.ErrNotFound
}

// describe returns descriptor, carried entities and whether the call writes.
func verifC16Describe(method string, args interface{}) (string, []string, bool) {
	switch method {
	case "Catalog.NodeServiceList":
		return "read-services", []string{"read"}, false
	case "Catalog.NodeServices":
		return "read-services-legacy", []string{"read"}, false
	case "Health.NodeChecks":
		return "read-checks", []string{"read"}, false
	case "Catalog.Register":
		req := args.(*structs.RegisterRequest)
		var ents, cids []string
		svc := "-"
		if req.Service != nil {
			svc = req.Service.ID
			ents = append(ents, "svc:"+req.Service.ID)
		}
		if req.Check != nil {
			cids = append(cids, string(req.Check.CheckID))
		}
		for _, ch := range req.Checks {
			cids = append(cids, string(ch.CheckID))
		}
		sort.Strings(cids)
		for _, id := range cids {
			ents = append(ents, "chk:"+id)
		}
		if req.Service == nil && len(cids) == 0 {
			return "reg-node", []string{"node"}, true
		}
		return "reg:" + svc + ":" + strings.Join(cids, ","), ents, true
	case "Catalog.Deregister":
		req := args.(*structs.DeregisterRequest)
		switch {
		case req.ServiceID != "":
			return "dereg-svc:" + req.ServiceID, []string{"svc:" + req.ServiceID}, true
		case req.CheckID != "":
			return "dereg-chk:" + string(req.CheckID), []string{"chk:" + string(req.CheckID)}, true
		}
		return "dereg-node", []string{"node"}, true
	}
	return "other:" + method, nil, false
}

func (c *verifC16Catalog) faultFor(desc string, ents []string) string {
	if c.noFaults {
		return ""
	}
	for i, r := range c.plan {
		if r.Sync != -1 && r.Sync != c.curSync {
			continue
		}
		hit := false
		if r.Desc != "" && r.Desc == desc {
			hit = true
		}
		if r.Ent != "" {
			for _, e := range ents {
				if e == r.Ent {
					hit = true
				}
			}
		}
		if !hit {
			continue
		}
		n := c.matches[i]
		c.matches[i] = n + 1
		if r.All || n == r.Occ {
			return r.Kind
		}
	}
	return ""
}

func (c *verifC16Catalog) RPC(_ context.Context, method string, args interface{}, reply interface{}) error {
	desc, ents, write := verifC16Describe(method, args)
	rec := verifC16RPCRec{Desc: desc, Ents: ents, Write: write}
	kind := c.faultFor(desc, ents)
	rec.Fault = kind
	var err error
	switch kind {
	case "":
		err = c.serve(method, args, reply)
		if err != nil {
			rec.Natural = err.Error()
		}
	case "err":
		err = errors.New("rpc error making call: EOF")
	case "err-applied":
		_ = c.serve(method, args, reply)
		err = errors.New("rpc error making call: i/o timeout")
	case "perm":
		err = acl.PermissionDeniedError{Accessor: "0000", Resource: acl.ResourceService, AccessLevel: acl.AccessWrite}
	case "perm-rpc":
		err = errors.New("rpc error making call: Permission denied: token with AccessorID '0000' lacks permission 'service:write' on \"x\"")
	case "aclnotfound":
		err = acl.ErrNotFound
	case "unknown":
		switch a := args.(type) {
		case *structs.DeregisterRequest:
			_ = c.serve(method, args, reply)
			if a.ServiceID != "" {
				err = fmt.Errorf("rpc error making call: Unknown service ID '%s'", a.ServiceID)
			} else {
				err = fmt.Errorf("rpc error making call: Unknown check ID '%s'", a.CheckID)
			}
		default:
			err = errors.New("rpc error making call: Unknown service ID 'x' for check ID 'y'")
		}
	case "nomethod":
		err = fmt.Errorf("rpc: can't find method %s", method)
	default:
		panic("unknown fault kind " + kind)
	}
	rec.OK = err == nil
	c.calls = append(c.calls, rec)
	if err == nil {
		switch method {
		case "Catalog.NodeServiceList", "Catalog.NodeServices":
			c.readSvcOK = true
		case "Health.NodeChecks":
			if c.readSvcOK && !c.diffDone {
				// updateSyncState now recomputes every InSync flag from what it just read
				c.diffDone = true
				if c.onDiff != nil {
					c.onDiff()
				}
			}
		}
	}
	return err
}

func (c *verifC16Catalog) serve(method string, args interface{}, reply interface{}) error {
	em := structs.WildcardEnterpriseMetaInDefaultPartition()
	switch method {
	case "Catalog.NodeServiceList":
		req := args.(*structs.NodeSpecificRequest)
		out := reply.(*structs.IndexedNodeServiceList)
		idx, list, err := c.store.NodeServiceList(nil, req.Node, em, "")
		if err != nil {
			return err
		}
		out.Index = idx
		if list != nil {
			if c.wire {
				verifC16Copy(list, &out.NodeServices)
			} else {
				out.NodeServices = *list
			}
		}
		return nil
	case "Catalog.NodeServices":
		req := args.(*structs.NodeSpecificRequest)
		out := reply.(*structs.IndexedNodeServices)
		idx, ns, err := c.store.NodeServices(nil, req.Node, em, "")
		if err != nil {
			return err
		}
		out.Index = idx
		if ns != nil {
			if c.wire {
				out.NodeServices = &structs.NodeServices{}
				verifC16Copy(ns, out.NodeServices)
			} else {
				out.NodeServices = ns
			}
		}
		return nil
	case "Health.NodeChecks":
		req := args.(*structs.NodeSpecificRequest)
		out := reply.(*structs.IndexedHealthChecks)
		idx, hcs, err := c.store.NodeChecks(nil, req.Node, em, "")
		if err != nil {
			return err
		}
		out.Index = idx
		if c.wire {
			verifC16Copy(hcs, &out.HealthChecks)
		} else {
			out.HealthChecks = hcs
		}
		return nil
	case "Catalog.Register":
		return c.register(args.(*structs.RegisterRequest))
	case "Catalog.Deregister":
		return c.deregister(args.(*structs.DeregisterRequest))
	}
	return fmt.Errorf("rpc: can't find method %s", method)
}

// register mirrors Catalog.Register (ACLs off) + raftApply + FSM.applyRegister.
func (c *verifC16Catalog) register(in *structs.RegisterRequest) error {
	var req structs.RegisterRequest
	verifC16Copy(in, &req)
	if req.Node == "" {
		return fmt.Errorf("Must provide node")
	}
	if req.Address == "" && !req.SkipNodeUpdate {
		return fmt.Errorf("Must provide address if SkipNodeUpdate is not set")
	}
	if req.Service != nil {
		if req.Service.ID == "" && req.Service.Service != "" {
			req.Service.ID = req.Service.Service
		}
		if req.Service.Service == "" {
			return fmt.Errorf("Must provide service name (Service.Service) when service ID is provided")
		}
	}
	if req.Check != nil {
		req.Checks = append(req.Checks, req.Check)
		req.Check = nil
	}
	for _, check := range req.Checks {
		if check.Node == "" {
			check.Node = req.Node
		}
		if check.CheckID == "" && check.Name != "" {
			check.CheckID = types.CheckID(check.Name)
		}
		if check.Type == "" {
			check.Type = check.CheckType().Type()
		}
	}
	return c.store.EnsureRegistration(c.next(), &req)
}

// deregister mirrors Catalog.Deregister (ACLs off) + FSM.applyDeregister.
func (c *verifC16Catalog) deregister(in *structs.DeregisterRequest) error {
	var req structs.DeregisterRequest
	verifC16Copy(in, &req)
	if req.Node == "" {
		return fmt.Errorf("Must provide node")
	}
	switch {
	case req.ServiceID != "":
		return c.store.DeleteService(c.next(), req.Node, req.ServiceID, &req.EnterpriseMeta, "")
	case req.CheckID != "":
		return c.store.DeleteCheck(c.next(), req.Node, req.CheckID, &req.EnterpriseMeta, "")
	}
	return c.store.DeleteNode(c.next(), req.Node, &req.EnterpriseMeta, "")
}

// ---- direct views of the catalog for the oracle (always copies, sorted by ID)

func (c *verifC16Catalog) node() *structs.Node {
	_, n, err := c.store.GetNode(verifC16Node, nil, "")
	if err != nil {
		panic(err)
	}
	return n
}

func (c *verifC16Catalog) services() map[string]*structs.NodeService {
	_, list, err := c.store.NodeServiceList(nil, verifC16Node, structs.WildcardEnterpriseMetaInDefaultPartition(), "")
	if err != nil {
		panic(err)
	}
	out := map[string]*structs.NodeService{}
	if list != nil {
		for _, s := range list.Services {
			out[s.ID] = s
		}
	}
	return out
}

func (c *verifC16Catalog) checks() map[string]*structs.HealthCheck {
	_, hcs, err := c.store.NodeChecks(nil, verifC16Node, structs.WildcardEnterpriseMetaInDefaultPartition(), "")
	if err != nil {
		panic(err)
	}
	out := map[string]*structs.HealthCheck{}
	for _, h := range hcs {
		out[string(h.CheckID)] = h
	}
	return out
}
