package local

// C16 — Anti-entropy makes the catalog converge to the agent's local state.
//
// TestVerifC16Enumerate: a generated scenario (local ops, catalog drift, SyncChanges/SyncFull calls) is run once
// fault-free to learn the RPCs of every sync op; then it is re-run once for EVERY RPC of every sync op and EVERY fault
// kind (exhaustive single-fault enumeration per scenario). TestVerifC16Multi: rapid-drawn plans of several faults,
// addressed by exact RPC or by carried entity, one-shot or persistent. TestVerifC16Replay: saved cases, no rapid.
//
// Oracle: see verif_c16_scenario_test.go (invariant, converged) — (a) clean full sync => catalog == local on agent-owned
// fields; (b) at every step InSync => catalog holds an equal entry (ACL-refused and drifted entries exempt) and local
// removals are gone or still tracked; (c) one closing fault-free SyncFull converges.

import (
	"encoding/json"
	"sort"
	"sync"
	"testing"

	"github.com/hashicorp/consul/agent/netutil"
	"github.com/hashicorp/consul/internal/verifkit"
	"pgregory.net/rapid"
)

var verifC16StubOnce sync.Once

// verifC16Stub: the state store asks netutil whether the agent is dual-stack when it assigns virtual IPs; without the
// stub that is an HTTP call to a local agent (upstream's state tests stub it the same way). Once per process, and only
// when a C16 test actually runs.
func verifC16Stub() {
	verifC16StubOnce.Do(func() {
		netutil.GetAgentBindAddrFunc = netutil.GetMockGetAgentBindAddrFunc("0.0.0.0")
	})
}

var (
	verifC16SvcIDs   = []string{"web-1", "web-2", "api-1"}
	verifC16ChkIDs   = []string{"c1", "c2", "c3"}
	verifC16TagSets  = [][]string{nil, {"a"}, {"b"}, {"a", "b"}}
	verifC16Statuses = []string{"passing", "warning", "critical"}
	verifC16Outputs  = []string{"", "o1", "o2"}
)

func verifC16GenChk(t *rapid.T, withSID bool) verifC16Chk {
	cd := verifC16Chk{
		ID:     rapid.SampledFrom(verifC16ChkIDs).Draw(t, "cid"),
		Status: rapid.SampledFrom(verifC16Statuses).Draw(t, "status"),
	}
	if rapid.IntRange(0, 3).Draw(t, "hasOutput") == 0 {
		cd.Output = rapid.SampledFrom(verifC16Outputs).Draw(t, "output")
	}
	if rapid.IntRange(0, 5).Draw(t, "hasNotes") == 0 {
		cd.Notes = "n"
	}
	if rapid.IntRange(0, 5).Draw(t, "hasInterval") == 0 {
		cd.Interval = rapid.SampledFrom([]string{"10s", "30s"}).Draw(t, "interval")
	}
	if rapid.IntRange(0, 3).Draw(t, "hasTok") == 0 {
		cd.Tok = "t1"
	}
	if withSID && rapid.IntRange(0, 2).Draw(t, "svcLevel") > 0 {
		cd.SID = rapid.SampledFrom(verifC16SvcIDs).Draw(t, "sid")
	}
	return cd
}

func verifC16GenSvc(t *rapid.T, k string) verifC16Op {
	op := verifC16Op{K: k,
		ID:   rapid.SampledFrom(verifC16SvcIDs).Draw(t, "sid"),
		Tags: rapid.SampledFrom(verifC16TagSets).Draw(t, "tags"),
		Port: rapid.SampledFrom([]int{80, 81}).Draw(t, "port"),
	}
	if rapid.IntRange(0, 3).Draw(t, "hasMeta") == 0 {
		op.Meta = rapid.SampledFrom([]string{"1", "2"}).Draw(t, "meta")
	}
	op.ETO = rapid.IntRange(0, 3).Draw(t, "eto") == 0
	op.Native = rapid.IntRange(0, 6).Draw(t, "native") == 0
	return op
}

// verifC16GenLocal draws one local op.
func verifC16GenLocal(t *rapid.T) verifC16Op {
	switch w := rapid.IntRange(0, 99).Draw(t, "local"); {
	case w < 34: // add / re-register a service with its checks
		op := verifC16GenSvc(t, "add-svc")
		if rapid.IntRange(0, 3).Draw(t, "hasTok") == 0 {
			op.Tok = "t1"
		}
		n := rapid.IntRange(0, 2).Draw(t, "nchecks")
		seen := map[string]bool{}
		for i := 0; i < n; i++ {
			cd := verifC16GenChk(t, false)
			cd.Output = ""
			cd.Tok = ""
			if !seen[cd.ID] {
				seen[cd.ID] = true
				op.Checks = append(op.Checks, cd)
			}
		}
		op.Replace = rapid.Bool().Draw(t, "replace")
		return op
	case w < 48:
		return verifC16Op{K: "rm-svc", ID: rapid.SampledFrom(verifC16SvcIDs).Draw(t, "sid")}
	case w < 64:
		cd := verifC16GenChk(t, true)
		return verifC16Op{K: "add-chk", Chk: &cd}
	case w < 74:
		return verifC16Op{K: "rm-chk", Chk: &verifC16Chk{ID: rapid.SampledFrom(verifC16ChkIDs).Draw(t, "cid")}}
	case w < 86:
		return verifC16Op{K: "upd-chk", Chk: &verifC16Chk{ID: rapid.SampledFrom(verifC16ChkIDs).Draw(t, "cid"),
			Status: rapid.SampledFrom(verifC16Statuses).Draw(t, "status"), Output: rapid.SampledFrom(verifC16Outputs).Draw(t, "output")}}
	case w < 94: // output-only update (Status "" = keep the current status): what CheckUpdateInterval defers
		return verifC16Op{K: "upd-chk", Chk: &verifC16Chk{ID: rapid.SampledFrom(verifC16ChkIDs).Draw(t, "cid"),
			Output: rapid.SampledFrom(verifC16Outputs).Draw(t, "output")}}
	case w < 98:
		return verifC16Op{K: "meta", Meta: rapid.SampledFrom([]string{"x", "y"}).Draw(t, "nodemeta")}
	default:
		return verifC16Op{K: "discard", Discard: rapid.Bool().Draw(t, "discard")}
	}
}

// verifC16GenDrift draws one drift op.
func verifC16GenDrift(t *rapid.T) verifC16Op {
	switch w := rapid.IntRange(0, 99).Draw(t, "drift"); {
	case w < 18:
		return verifC16GenSvc(t, "d-svc")
	case w < 26:
		return verifC16Op{K: "d-eto", ID: rapid.SampledFrom(verifC16SvcIDs).Draw(t, "sid"), Tags: rapid.SampledFrom(verifC16TagSets).Draw(t, "tags")}
	case w < 34:
		return verifC16Op{K: "d-tags", ID: rapid.SampledFrom(verifC16SvcIDs).Draw(t, "sid"), Tags: rapid.SampledFrom(verifC16TagSets).Draw(t, "tags")}
	case w < 40:
		return verifC16Op{K: "d-taddr", ID: rapid.SampledFrom(verifC16SvcIDs).Draw(t, "sid"), Port: rapid.SampledFrom([]int{1, 2}).Draw(t, "port")}
	case w < 54:
		return verifC16Op{K: "d-rm-svc", ID: rapid.SampledFrom(verifC16SvcIDs).Draw(t, "sid")}
	case w < 70:
		cd := verifC16GenChk(t, true)
		cd.Tok = ""
		return verifC16Op{K: "d-chk", Chk: &cd}
	case w < 82:
		return verifC16Op{K: "d-rm-chk", Chk: &verifC16Chk{ID: rapid.SampledFrom(verifC16ChkIDs).Draw(t, "cid")}}
	case w < 87:
		return verifC16Op{K: "d-node-meta", Meta: rapid.SampledFrom([]string{"p", "q"}).Draw(t, "nodemeta")}
	case w < 92:
		return verifC16Op{K: "d-rm-node"}
	case w < 96:
		return verifC16Op{K: "d-consul"}
	default:
		return verifC16Op{K: "d-serf", Chk: &verifC16Chk{ID: "serfHealth", Status: rapid.SampledFrom(verifC16Statuses).Draw(t, "status")}}
	}
}

// verifC16GenScenario: rounds of (a few local / drift ops, then a sync call), the way an agent lives: things change,
// then a partial or a full sync runs. maxRounds bounds the number of sync ops.
func verifC16GenScenario(t *rapid.T, maxRounds int) (verifC16Op, []verifC16Op) {
	cfg := verifC16Op{K: "cfg",
		Defer:   rapid.IntRange(0, 2).Draw(t, "defer") == 0,
		Wire:    rapid.Bool().Draw(t, "wire"),
		Discard: rapid.IntRange(0, 9).Draw(t, "discard") == 0,
	}
	rounds := rapid.IntRange(1, maxRounds).Draw(t, "rounds")
	var ops []verifC16Op
	for r := 0; r < rounds; r++ {
		n := rapid.IntRange(1, 4).Draw(t, "nops")
		for i := 0; i < n; i++ {
			if rapid.IntRange(0, 9).Draw(t, "isDrift") < 3 {
				ops = append(ops, verifC16GenDrift(t))
			} else {
				ops = append(ops, verifC16GenLocal(t))
			}
		}
		if rapid.IntRange(0, 9).Draw(t, "fullSync") < 4 {
			ops = append(ops, verifC16Op{K: "sync-full"})
		} else {
			ops = append(ops, verifC16Op{K: "sync-changes"})
		}
	}
	// sometimes the scenario ends with un-synced changes (only the closing full sync sees them)
	n := rapid.IntRange(0, 2).Draw(t, "tail")
	for i := 0; i < n; i++ {
		ops = append(ops, verifC16GenLocal(t))
	}
	return cfg, ops
}

func verifC16Record(c *verifkit.Case, cfg verifC16Op, ops []verifC16Op) {
	c.Op(cfg)
	for _, op := range ops {
		c.Op(op)
	}
}

func verifC16KindsFor(desc string) []string {
	if desc == "read-services" {
		// the one error string updateSyncState special-cases on reads: fall back to the legacy Catalog.NodeServices
		return append(append([]string{}, verifC16Kinds...), "nomethod")
	}
	return verifC16Kinds
}

// verifC16Merge folds the observations of one run into the case.
func verifC16Merge(c *verifkit.Case, x *verifC16Run) {
	for l := range x.labels {
		c.Label(l)
	}
	if x.nontrivial {
		c.NonTrivial()
	}
}

// verifC16Enumerate: fault-free run, then every (sync op, RPC, kind). only != nil restricts to one plan (replay).
func verifC16Enumerate(f verifkit.F, c *verifkit.Case, rec *verifkit.Rec, cfg verifC16Op, ops []verifC16Op) {
	base := verifC16Execute(f, c, rec, cfg, ops, nil, false)
	verifC16Merge(c, base)
	nsync := len(base.syncCalls) - 1 // the closing sync is never faulted
	var runs, notFired, rpcs int64
	for si := 0; si < nsync; si++ {
		occ := map[string]int{}
		for _, call := range base.syncCalls[si] {
			o := occ[call.Desc]
			occ[call.Desc] = o + 1
			rpcs++
			for _, kind := range verifC16KindsFor(call.Desc) {
				plan := []verifC16Fault{{K: "fault", Sync: si, Desc: call.Desc, Occ: o, Kind: kind}}
				x := verifC16Execute(f, c, rec, cfg, ops, plan, false)
				runs++
				fired := false
				if si < len(x.syncCalls) {
					for _, r := range x.syncCalls[si] {
						if r.Fault == kind && r.Desc == call.Desc {
							fired = true
						}
					}
				}
				if !fired {
					notFired++
				}
				verifC16Merge(c, x)
			}
		}
	}
	switch {
	case rpcs == 0:
		c.Label("rpcs-per-scenario=0")
	case rpcs <= 8:
		c.Label("rpcs-per-scenario=1-8")
	case rpcs <= 20:
		c.Label("rpcs-per-scenario=9-20")
	default:
		c.Label("rpcs-per-scenario>20")
	}
	rec.AddExtraInt("fault_runs", runs)
	rec.AddExtraInt("rpc_positions_enumerated", rpcs)
	rec.AddExtraInt("planned_fault_did_not_fire", notFired)
}

func TestVerifC16Enumerate(t *testing.T) {
	verifC16Stub()
	rec := verifkit.For("C16")
	defer rec.Flush()
	maxRounds := verifkit.EnvInt("VERIF_C16_ROUNDS", 4)
	rapid.Check(t, func(t *rapid.T) {
		c := rec.NewCase()
		cfg, ops := verifC16GenScenario(t, maxRounds)
		verifC16Record(c, cfg, ops)
		c.Label("mode=single-fault-enumeration")
		verifC16Enumerate(t, c, rec, cfg, ops)
		c.Done()
	})
}

// TestVerifC16Multi: several faults per run; rules address an exact RPC of the fault-free run or every RPC that
// carries an entity, fire once or persistently, in one sync op or in all of them.
func TestVerifC16Multi(t *testing.T) {
	verifC16Stub()
	rec := verifkit.For("C16")
	defer rec.Flush()
	maxRounds := verifkit.EnvInt("VERIF_C16_ROUNDS_MULTI", 5)
	plans := verifkit.EnvInt("VERIF_C16_PLANS", 6)
	rapid.Check(t, func(t *rapid.T) {
		cfg, ops := verifC16GenScenario(t, maxRounds)
		// learn the RPCs (this fault-free run is itself checked by the oracle)
		c0 := rec.NewCase()
		verifC16Record(c0, cfg, ops)
		base := verifC16Execute(t, c0, rec, cfg, ops, nil, false)
		nsync := len(base.syncCalls) - 1
		var descs []verifC16Fault
		for si := 0; si < nsync; si++ {
			occ := map[string]int{}
			for _, call := range base.syncCalls[si] {
				descs = append(descs, verifC16Fault{Sync: si, Desc: call.Desc, Occ: occ[call.Desc]})
				occ[call.Desc]++
			}
		}
		ents := []string{"node", "read"}
		for _, id := range verifC16SvcIDs {
			ents = append(ents, "svc:"+id)
		}
		for _, id := range verifC16ChkIDs {
			ents = append(ents, "chk:"+id)
		}
		// entities RPCs of the fault-free run carried (in first-seen order: deterministic up to the State's map order,
		// which only permutes this list)
		var seenEnts []string
		{
			seen := map[string]bool{}
			for si := 0; si < nsync; si++ {
				for _, call := range base.syncCalls[si] {
					for _, e := range call.Ents {
						if !seen[e] {
							seen[e] = true
							seenEnts = append(seenEnts, e)
						}
					}
				}
			}
			sort.Strings(seenEnts)
		}
		kinds := append(append([]string{}, verifC16Kinds...), "nomethod")
		for p := 0; p < plans; p++ {
			c := rec.NewCase()
			verifC16Record(c, cfg, ops)
			c.Label("mode=multi-fault-plan")
			nr := rapid.IntRange(2, 4).Draw(t, "nrules")
			var plan []verifC16Fault
			for i := 0; i < nr; i++ {
				r := verifC16Fault{K: "fault", Kind: rapid.SampledFrom(kinds).Draw(t, "kind")}
				if len(descs) > 0 && rapid.Bool().Draw(t, "byDesc") {
					d := rapid.SampledFrom(descs).Draw(t, "rpc")
					r.Sync, r.Desc, r.Occ = d.Sync, d.Desc, d.Occ
				} else {
					if len(seenEnts) > 0 && rapid.IntRange(0, 3).Draw(t, "seenEnt") > 0 {
						r.Ent = rapid.SampledFrom(seenEnts).Draw(t, "ent")
					} else {
						r.Ent = rapid.SampledFrom(ents).Draw(t, "ent")
					}
					r.Sync = -1
					if nsync > 0 && rapid.Bool().Draw(t, "oneSync") {
						r.Sync = rapid.IntRange(0, nsync-1).Draw(t, "sync")
					}
					r.All = rapid.Bool().Draw(t, "all")
					if !r.All {
						r.Occ = rapid.IntRange(0, 1).Draw(t, "occ")
					}
				}
				plan = append(plan, r)
			}
			for _, r := range plan {
				c.Op(r)
			}
			x := verifC16Execute(t, c, rec, cfg, ops, plan, true)
			verifC16Merge(c, x)
			nf := 0
			for _, calls := range x.syncCalls {
				for _, r := range calls {
					if r.Fault != "" {
						nf++
					}
				}
			}
			switch {
			case nf == 0:
				c.Label("faults-fired=0")
			case nf == 1:
				c.Label("faults-fired=1")
			default:
				c.Label("faults-fired>=2")
			}
			rec.AddExtraInt("fault_runs", 1)
			c.Done()
		}
	})
}

// TestVerifC16Replay re-executes saved cases without rapid: ops = cfg op, scenario ops, then (optionally) the fault
// rules. Without fault rules the whole single-fault enumeration of the scenario is repeated.
func TestVerifC16Replay(t *testing.T) {
	verifC16Stub()
	rec := verifkit.For("C16")
	defer rec.Flush()
	for _, path := range verifkit.ReplayFiles("C16") {
		rp, err := verifkit.LoadReplay(path)
		if err != nil {
			t.Fatalf("%v", err)
		}
		var (
			cfg  = verifC16Op{K: "cfg"}
			ops  []verifC16Op
			plan []verifC16Fault
		)
		c := rec.NewCase()
		c.Label("replay")
		for _, raw := range rp.Ops {
			var probe struct {
				K string `json:"k"`
			}
			if err := json.Unmarshal(raw, &probe); err != nil {
				t.Fatalf("%s: %v", path, err)
			}
			switch probe.K {
			case "fault":
				var r verifC16Fault
				if err := json.Unmarshal(raw, &r); err != nil {
					t.Fatalf("%s: %v", path, err)
				}
				plan = append(plan, r)
				c.Op(r)
			case "cfg":
				if err := json.Unmarshal(raw, &cfg); err != nil {
					t.Fatalf("%s: %v", path, err)
				}
				c.Op(cfg)
			default:
				var op verifC16Op
				if err := json.Unmarshal(raw, &op); err != nil {
					t.Fatalf("%s: %v", path, err)
				}
				ops = append(ops, op)
				c.Op(op)
			}
		}
		if len(plan) > 0 {
			x := verifC16Execute(t, c, rec, cfg, ops, plan, true)
			verifC16Merge(c, x)
		} else {
			verifC16Enumerate(t, c, rec, cfg, ops)
		}
		c.Done()
	}
}
