package local

// C16 — scenario ops (local ops as agent.go performs them, catalog drift, sync calls), their execution against a
// fresh State + controllable catalog, and the oracle.

import (
	"encoding/json"
	"fmt"
	"os"
	"regexp"
	"runtime/debug"
	"sort"
	"strings"
	"time"

	"github.com/hashicorp/consul/agent/structs"
	"github.com/hashicorp/consul/agent/token"
	"github.com/hashicorp/consul/api"
	"github.com/hashicorp/consul/internal/verifkit"
	"github.com/hashicorp/consul/types"
	"github.com/hashicorp/go-hclog"
)

// verifC16Chk is a check definition inside an op.
type verifC16Chk struct {
	ID       string `json:"id"`
	SID      string `json:"sid,omitempty"` // service ID ("" = node-level); ignored inside add-svc (the service of the op)
	Status   string `json:"status,omitempty"`
	Output   string `json:"output,omitempty"`
	Notes    string `json:"notes,omitempty"`
	Interval string `json:"interval,omitempty"`
	Tok      string `json:"tok,omitempty"`
}

// verifC16Op is one scenario op (and one replay op). K selects the kind:
//
//	cfg                                            first op: agent configuration of the case
//	add-svc rm-svc add-chk rm-chk upd-chk meta discard   local ops, performed the way agent.go calls into local.State
//	d-svc d-tags d-eto d-taddr d-rm-svc d-chk d-rm-chk d-node-meta d-rm-node d-consul d-serf   drift applied to the catalog directly
//	sync-changes sync-full                         sync calls
type verifC16Op struct {
	K string `json:"k"`

	// cfg
	Defer   bool `json:"defer,omitempty"`   // CheckUpdateInterval > 0 (output-only changes are deferred)
	Wire    bool `json:"wire,omitempty"`    // RPC replies cross msgpack (client agent) / share store objects (server agent)
	Discard bool `json:"discard,omitempty"` // DiscardCheckOutput (cfg and discard op)

	// service definition (add-svc, d-svc); ID also for rm-svc, d-tags, d-taddr, d-rm-svc
	ID      string        `json:"id,omitempty"`
	Name    string        `json:"name,omitempty"`
	Tags    []string      `json:"tags,omitempty"`
	Port    int           `json:"port,omitempty"`
	Meta    string        `json:"meta,omitempty"` // value of meta key "v" ("" = no meta); node meta for meta / d-node-meta
	ETO     bool          `json:"eto,omitempty"`
	Native  bool          `json:"native,omitempty"`
	Tok     string        `json:"tok,omitempty"`
	Checks  []verifC16Chk `json:"checks,omitempty"`
	Replace bool          `json:"replace,omitempty"` // replace-existing-checks

	// single check (add-chk, upd-chk, rm-chk, d-chk, d-rm-chk)
	Chk *verifC16Chk `json:"chk,omitempty"`
}

func verifC16SvcName(id string) string {
	if i := strings.LastIndexByte(id, '-'); i > 0 {
		return id[:i]
	}
	return id
}

var verifC16ExtraKnown = func() map[string]bool {
	m := map[string]bool{}
	for _, k := range strings.Split(os.Getenv("VERIF_C16_KNOWN"), ",") {
		if k = strings.TrimSpace(k); k != "" {
			m[k] = true
		}
	}
	return m
}()

// verifC16Run is one execution of a scenario under one fault plan.
type verifC16Run struct {
	f    verifkit.F
	c    *verifkit.Case
	rec  *verifkit.Rec
	cfg  verifC16Op
	plan []verifC16Fault

	st  *State
	cat *verifC16Catalog

	nSync int // sync ops executed so far

	// exemption bookkeeping (see oracle)
	refused   map[string]bool // entities an ACL-kind fault refused since the last remote/local diff
	drifted   map[string]bool // entities drift touched since the last diff
	driftAll  bool
	tolerated map[string]bool // entities of a tolerated (known) finding, until the next diff
	removed   map[string]bool // entities removed by a local op and not re-added / re-created by drift since
	dirty     map[string]bool // entities changed by local ops since the last clean sync (non-triviality rule only)

	// intended local state: what the local ops issued so far registered (the harness issued every one of them)
	wantSvc  map[string]*structs.NodeService
	wantChk  map[string]*structs.HealthCheck
	wantMeta map[string]string
	discard  bool

	// catalog content at the moment of the last remote/local diff
	diffSvcs map[string]*structs.NodeService
	diffChks map[string]*structs.HealthCheck

	// observations for labels / enumeration
	syncCalls   [][]verifC16RPCRec
	labels      map[string]bool
	nontrivial  bool
	planRecorded bool
}

func (x *verifC16Run) label(l string) { x.labels[l] = true }

// fail reports a violation. Tolerated (known) findings return true: the caller exempts the entity and goes on.
func (x *verifC16Run) fail(key, format string, args ...any) bool {
	x.f.Helper()
	if x.rec.IsKnown(key) || verifC16ExtraKnown[key] {
		x.c.KnownHit(key)
		return true
	}
	if !x.planRecorded {
		x.planRecorded = true
		for _, r := range x.plan {
			r.K = "fault"
			x.c.Op(r)
		}
	}
	return x.c.Violation(x.f, key, format, args...)
}

func verifC16NewRun(f verifkit.F, c *verifkit.Case, rec *verifkit.Rec, cfg verifC16Op, plan []verifC16Fault) *verifC16Run {
	x := &verifC16Run{f: f, c: c, rec: rec, cfg: cfg, plan: plan,
		refused: map[string]bool{}, drifted: map[string]bool{}, tolerated: map[string]bool{}, removed: map[string]bool{},
		dirty: map[string]bool{}, labels: map[string]bool{}}
	lc := Config{
		AdvertiseAddr:      verifC16Addr,
		Datacenter:         verifC16DC,
		DiscardCheckOutput: cfg.Discard,
		NodeID:             verifC16NodeID,
		NodeName:           verifC16Node,
		TaggedAddresses:    map[string]string{"lan": verifC16Addr, "wan": verifC16Addr},
	}
	if cfg.Defer {
		// the deferral timer (interval/2 + stagger) can never fire inside a case; it is stopped when the run ends
		lc.CheckUpdateInterval = 100000 * time.Hour
	}
	x.st = NewState(lc, hclog.NewNullLogger(), new(token.Store))
	x.st.TriggerSyncChanges = func() {}
	x.cat = verifC16NewCatalog(cfg.Wire)
	x.cat.plan = plan
	x.cat.onDiff = func() {
		// what updateSyncState is looking at right now
		x.diffSvcs, x.diffChks = x.cat.services(), x.cat.checks()
		x.refused = map[string]bool{}
		x.drifted = map[string]bool{}
		x.tolerated = map[string]bool{}
		x.driftAll = false
	}
	x.st.Delegate = x.cat
	// the agent loads its node metadata before the first sync (agent.loadMetadata)
	x.wantSvc, x.wantChk = map[string]*structs.NodeService{}, map[string]*structs.HealthCheck{}
	x.discard = cfg.Discard
	x.wantMeta = map[string]string{"consul-network-segment": "", "consul-version": "1.22.5"}
	_ = x.st.LoadMetadata(map[string]string{"consul-network-segment": "", "consul-version": "1.22.5"})
	return x
}

func (x *verifC16Run) close() {
	x.st.Lock()
	for _, c := range x.st.checks {
		if c.DeferCheck != nil {
			c.DeferCheck.Stop()
		}
	}
	x.st.Unlock()
}

// ---- building structs from ops

func verifC16Service(op verifC16Op) *structs.NodeService {
	name := op.Name
	if name == "" {
		name = verifC16SvcName(op.ID)
	}
	ns := &structs.NodeService{
		Kind:              structs.ServiceKindTypical,
		ID:                op.ID,
		Service:           name,
		Tags:              append([]string(nil), op.Tags...),
		Port:              op.Port,
		EnableTagOverride: op.ETO,
		// agent.validateService: default weights; agent.addServiceInternal: TaggedAddresses never nil
		Weights:         &structs.Weights{Passing: 1, Warning: 1},
		TaggedAddresses: map[string]structs.ServiceAddress{},
		EnterpriseMeta:  *structs.DefaultEnterpriseMetaInDefaultPartition(),
	}
	if op.Meta != "" {
		ns.Meta = map[string]string{"v": op.Meta}
	}
	if op.Native {
		ns.Connect.Native = true
	}
	return ns
}

func verifC16Status(s string) string {
	switch s {
	case api.HealthPassing, api.HealthWarning, api.HealthCritical:
		return s
	}
	return api.HealthCritical
}

// ---- local ops, mirroring agent.go

func (x *verifC16Run) guard(what string, fn func()) (ok bool) {
	defer func() {
		r := recover()
		if r == nil {
			ok = true
			return
		}
		tn := fmt.Sprintf("%T", r)
		if strings.HasPrefix(tn, "rapid.") || strings.HasPrefix(tn, "*rapid.") {
			panic(r)
		}
		st := string(debug.Stack())
		x.fail("C16/panic/"+verifC16PanicSite(st), "panic during %s: %v\n%s", what, r, verifC16Trunc(st, 5000))
	}()
	fn()
	return true
}

var verifC16Sanitize = regexp.MustCompile(`[^A-Za-z0-9_.=-]+`)

// verifC16PanicSite names the innermost consul (non-harness) function of a panic stack.
func verifC16PanicSite(stack string) string {
	for _, line := range strings.Split(stack, "\n") {
		if !strings.HasPrefix(line, "github.com/hashicorp/consul") {
			continue
		}
		fn := line
		if i := strings.LastIndex(fn, "("); i > 0 {
			fn = fn[:i]
		}
		if strings.Contains(fn, "verifkit") || strings.Contains(fn, "verifC16") || strings.Contains(fn, "TestVerifC16") {
			continue
		}
		if i := strings.LastIndex(fn, "/"); i >= 0 {
			fn = fn[i+1:]
		}
		return strings.Trim(verifC16Sanitize.ReplaceAllString(fn, "_"), "_")
	}
	return "unknown"
}

func verifC16Trunc(s string, n int) string {
	if len(s) > n {
		return s[:n] + "…"
	}
	return s
}

// addService mirrors Agent.addServiceInternal: checks are built from the service, status/output of a check that
// already exists are carried over, and with replace-existing-checks the service's other checks are removed.
func (x *verifC16Run) addService(op verifC16Op) {
	svc := verifC16Service(op)
	sid := svc.CompoundServiceID()
	existing := map[structs.CheckID]bool{}
	for _, ch := range x.st.ChecksForService(sid, false) {
		existing[ch.CompoundCheckID()] = false
	}
	snap := x.st.AllChecks()
	var checks []*structs.HealthCheck
	for _, cd := range op.Checks {
		cid := structs.NewCheckID(types.CheckID(cd.ID), &svc.EnterpriseMeta)
		existing[cid] = true
		hc := &structs.HealthCheck{
			Node:           verifC16Node,
			CheckID:        types.CheckID(cd.ID),
			Name:           fmt.Sprintf("Service '%s' check", svc.Service),
			Interval:       cd.Interval,
			Status:         verifC16Status(cd.Status),
			Notes:          cd.Notes,
			ServiceID:      svc.ID,
			ServiceName:    svc.Service,
			ServiceTags:    svc.Tags,
			Type:           "ttl",
			EnterpriseMeta: svc.EnterpriseMeta,
		}
		if cd.Interval != "" {
			hc.Type = "http"
		}
		if prev, ok := snap[cid]; ok {
			hc.Output, hc.Status = prev.Output, prev.Status
		}
		checks = append(checks, hc)
	}
	x.dirty["svc:"+op.ID] = true
	delete(x.removed, "svc:"+op.ID)
	for _, cd := range op.Checks {
		x.dirty["chk:"+cd.ID] = true
		delete(x.removed, "chk:"+cd.ID)
	}
	x.guard("AddServiceWithChecks", func() {
		if err := x.st.AddServiceWithChecks(svc, checks, op.Tok, false); err != nil {
			x.f.Fatalf("harness: AddServiceWithChecks(%s): %v", op.ID, err)
		}
		x.wantSvc[op.ID] = verifC16Service(op)
		for _, hc := range checks {
			w := *hc
			if x.discard {
				w.Output = ""
			}
			x.wantChk[string(hc.CheckID)] = &w
		}
		if op.Replace {
			var ids []string
			for cid, keep := range existing {
				if !keep {
					ids = append(ids, string(cid.ID))
				}
			}
			sort.Strings(ids)
			for _, id := range ids {
				x.removeCheck(id)
			}
		}
	})
}

// removeService mirrors Agent.removeServiceLocked: the service goes together with all of its checks.
func (x *verifC16Run) removeService(id string) {
	sid := structs.NewServiceID(id, nil)
	checks := x.st.ChecksForService(sid, false)
	var cids []structs.CheckID
	for cid := range checks {
		cids = append(cids, cid)
	}
	sort.Slice(cids, func(i, j int) bool { return cids[i].ID < cids[j].ID })
	if x.st.Service(sid) == nil {
		// Agent.removeServiceLocked would still call into the State, which refuses; nothing changes
		_ = x.st.RemoveServiceWithChecks(sid, cids)
		return
	}
	if err := x.st.RemoveServiceWithChecks(sid, cids); err != nil {
		x.f.Fatalf("harness: RemoveServiceWithChecks(%s): %v", id, err)
	}
	x.removed["svc:"+id] = true
	x.dirty["svc:"+id] = true
	delete(x.wantSvc, id)
	for _, cid := range cids {
		delete(x.wantChk, string(cid.ID))
		x.removed["chk:"+string(cid.ID)] = true
		x.dirty["chk:"+string(cid.ID)] = true
	}
}

// addCheck mirrors Agent.addCheckLocked.
func (x *verifC16Run) addCheck(cd verifC16Chk) {
	hc := &structs.HealthCheck{
		Node:     verifC16Node,
		CheckID:  types.CheckID(cd.ID),
		Name:     "check " + cd.ID,
		Status:   verifC16Status(cd.Status),
		Output:   cd.Output,
		Notes:    cd.Notes,
		Interval: cd.Interval,
		Type:     "ttl",
	}
	if cd.Interval != "" {
		hc.Type = "http"
	}
	if cd.SID != "" {
		svc := x.st.Service(structs.NewServiceID(cd.SID, nil))
		if svc == nil {
			return // Agent.addCheckLocked: ServiceID does not exist
		}
		hc.ServiceID = cd.SID
		hc.ServiceName = svc.Service
		hc.ServiceTags = svc.Tags
		hc.EnterpriseMeta = svc.EnterpriseMeta
	}
	cid := hc.CompoundCheckID()
	existing := x.st.Check(cid)
	x.dirty["chk:"+cd.ID] = true
	delete(x.removed, "chk:"+cd.ID)
	x.guard("AddCheck", func() {
		if err := x.st.AddCheck(hc, cd.Tok, false); err != nil {
			x.f.Fatalf("harness: AddCheck(%s): %v", cd.ID, err)
		}
		w := *hc
		if x.discard {
			w.Output = ""
		}
		x.wantChk[cd.ID] = &w
		if existing != nil {
			x.st.UpdateCheck(cid, existing.Status, existing.Output)
			x.wantUpdate(cd.ID, existing.Status, existing.Output)
		}
	})
}

func (x *verifC16Run) removeCheck(id string) {
	cid := structs.NewCheckID(types.CheckID(id), nil)
	if x.st.Check(cid) == nil {
		_ = x.st.RemoveCheck(cid)
		return
	}
	if err := x.st.RemoveCheck(cid); err != nil {
		x.f.Fatalf("harness: RemoveCheck(%s): %v", id, err)
	}
	x.removed["chk:"+id] = true
	x.dirty["chk:"+id] = true
	delete(x.wantChk, id)
}

// wantUpdate is State.UpdateCheck on the intended state: status and output are taken over (the output locally even
// when its write-back to the servers is deferred), the output is dropped under discard_check_output.
func (x *verifC16Run) wantUpdate(id, status, output string) {
	w := x.wantChk[id]
	if w == nil {
		return
	}
	if x.discard {
		output = ""
	}
	c := *w
	c.Status, c.Output = status, output
	x.wantChk[id] = &c
}

// ---- drift, applied to the catalog the way another registrar (catalog HTTP API, a previous incarnation of the agent,
// the leader's reconcile loop) would.

func (x *verifC16Run) touch(ent string) {
	x.drifted[ent] = true
	if x.dirty[ent] {
		x.label("drift-on-locally-changed-entry")
		x.nontrivial = true
	}
}

// touchService marks a service and every check attached to it (catalog side or local side).
func (x *verifC16Run) touchService(id string) {
	x.touch("svc:" + id)
	for cid, hc := range x.cat.checks() {
		if hc.ServiceID == id {
			x.touch("chk:" + cid)
		}
	}
	x.st.RLock()
	for cid, c := range x.st.checks {
		if c.Check != nil && c.Check.ServiceID == id {
			x.touch("chk:" + string(cid.ID))
		}
	}
	x.st.RUnlock()
}

func (x *verifC16Run) driftRegister(req *structs.RegisterRequest) error {
	req.Datacenter = verifC16DC
	req.Node = verifC16Node
	if x.cat.node() != nil {
		req.SkipNodeUpdate = true
	} else {
		// a registrar that creates the node knows its name and address, not the agent's metadata
		req.ID = verifC16NodeID
		req.Address = verifC16Addr
		req.NodeMeta = map[string]string{"external": "true"}
	}
	return x.cat.register(req)
}

func (x *verifC16Run) drift(op verifC16Op) {
	switch op.K {
	case "d-svc": // add or overwrite a service
		svc := verifC16Service(op)
		x.touchService(op.ID)
		if w := x.wantSvc[op.ID]; w != nil && !w.EnableTagOverride && svc.EnableTagOverride && !verifC16SameTags(w.Tags, svc.Tags) {
			x.label("drift=tag-override-switched-on-with-other-tags-for-service-registered-without")
		}
		if err := x.driftRegister(&structs.RegisterRequest{Service: svc}); err != nil {
			x.f.Fatalf("harness: drift d-svc: %v", err)
		}
		delete(x.removed, "svc:"+op.ID)
		x.label("drift=service-added-or-altered")
	case "d-tags", "d-taddr", "d-eto":
		cur := x.cat.services()[op.ID]
		if cur == nil {
			return
		}
		var svc structs.NodeService
		verifC16Copy(cur, &svc)
		if op.K == "d-eto" {
			// somebody re-registers the catalog copy with tag override switched ON and other tags
			svc.EnableTagOverride = true
			svc.Tags = append([]string(nil), op.Tags...)
			x.label("drift=tag-override-flag-switched-on")
			if w := x.wantSvc[op.ID]; w != nil && !w.EnableTagOverride && !verifC16SameTags(w.Tags, svc.Tags) {
				x.label("drift=tag-override-switched-on-with-other-tags-for-service-registered-without")
			}
		} else if op.K == "d-tags" {
			svc.Tags = append([]string(nil), op.Tags...)
			if cur.EnableTagOverride {
				x.label("drift=tags-under-tag-override")
			} else {
				x.label("drift=tags")
			}
		} else {
			if svc.TaggedAddresses == nil {
				svc.TaggedAddresses = map[string]structs.ServiceAddress{}
			}
			if op.Port == 2 {
				// an address outside the servers' reserved consul- namespace: not the servers' to own
				svc.TaggedAddresses["wan"] = structs.ServiceAddress{Address: "198.51.100.9", Port: op.Port}
				x.label("drift=foreign-tagged-address")
			} else {
				svc.TaggedAddresses["consul-extra"] = structs.ServiceAddress{Address: "240.9.9.9", Port: op.Port}
				x.label("drift=server-owned-tagged-address")
			}
		}
		x.touch("svc:" + op.ID)
		if err := x.driftRegister(&structs.RegisterRequest{Service: &svc}); err != nil {
			x.f.Fatalf("harness: drift %s: %v", op.K, err)
		}
	case "d-rm-svc":
		if x.cat.services()[op.ID] == nil {
			return
		}
		x.touchService(op.ID)
		if err := x.cat.deregister(&structs.DeregisterRequest{Node: verifC16Node, ServiceID: op.ID}); err != nil {
			x.f.Fatalf("harness: drift d-rm-svc: %v", err)
		}
		x.label("drift=service-removed")
	case "d-chk": // add or overwrite a check
		cd := *op.Chk
		hc := &structs.HealthCheck{Node: verifC16Node, CheckID: types.CheckID(cd.ID), Name: "ext " + cd.ID,
			Status: verifC16Status(cd.Status), Output: cd.Output, Notes: cd.Notes, Interval: cd.Interval, Type: "ttl"}
		if cd.SID != "" {
			if x.cat.services()[cd.SID] == nil {
				return // the catalog refuses a check for a service it does not hold
			}
			hc.ServiceID = cd.SID
		}
		x.touch("chk:" + cd.ID)
		if err := x.driftRegister(&structs.RegisterRequest{Check: hc}); err != nil {
			x.f.Fatalf("harness: drift d-chk: %v", err)
		}
		delete(x.removed, "chk:"+cd.ID)
		x.label("drift=check-added-or-altered")
	case "d-rm-chk":
		if x.cat.checks()[op.Chk.ID] == nil {
			return
		}
		x.touch("chk:" + op.Chk.ID)
		if err := x.cat.deregister(&structs.DeregisterRequest{Node: verifC16Node, CheckID: types.CheckID(op.Chk.ID)}); err != nil {
			x.f.Fatalf("harness: drift d-rm-chk: %v", err)
		}
		x.label("drift=check-removed")
	case "d-node-meta":
		n := x.cat.node()
		if n == nil {
			return
		}
		req := &structs.RegisterRequest{Datacenter: verifC16DC, Node: verifC16Node, ID: n.ID, Address: n.Address,
			TaggedAddresses: n.TaggedAddresses, NodeMeta: map[string]string{"drift": op.Meta}}
		if err := x.cat.register(req); err != nil {
			x.f.Fatalf("harness: drift d-node-meta: %v", err)
		}
		x.label("drift=node-meta")
	case "d-rm-node":
		if x.cat.node() == nil {
			return
		}
		x.driftAll = true
		for e := range x.dirty {
			_ = e
			x.label("drift-on-locally-changed-entry")
			x.nontrivial = true
			break
		}
		if err := x.cat.deregister(&structs.DeregisterRequest{Node: verifC16Node}); err != nil {
			x.f.Fatalf("harness: drift d-rm-node: %v", err)
		}
		x.label("drift=node-deregistered")
	case "d-consul":
		svc := &structs.NodeService{ID: structs.ConsulServiceID, Service: structs.ConsulServiceName, Port: 8300,
			Weights: &structs.Weights{Passing: 1, Warning: 1}, EnterpriseMeta: *structs.DefaultEnterpriseMetaInDefaultPartition()}
		if err := x.driftRegister(&structs.RegisterRequest{Service: svc}); err != nil {
			x.f.Fatalf("harness: drift d-consul: %v", err)
		}
		x.label("drift=consul-service")
	case "d-serf":
		hc := &structs.HealthCheck{Node: verifC16Node, CheckID: structs.SerfCheckID, Name: structs.SerfCheckName,
			Status: verifC16Status(op.Chk.Status), Output: "Agent alive and reachable"}
		if err := x.driftRegister(&structs.RegisterRequest{Check: hc}); err != nil {
			x.f.Fatalf("harness: drift d-serf: %v", err)
		}
		x.label("drift=serfHealth")
	default:
		x.f.Fatalf("harness: unknown drift op %q", op.K)
	}
}

// ---- one step

func (x *verifC16Run) step(op verifC16Op) {
	switch {
	case op.K == "add-svc":
		x.addService(op)
	case op.K == "rm-svc":
		x.removeService(op.ID)
	case op.K == "add-chk":
		x.addCheck(*op.Chk)
	case op.K == "rm-chk":
		x.removeCheck(op.Chk.ID)
	case op.K == "upd-chk":
		cid := structs.NewCheckID(types.CheckID(op.Chk.ID), nil)
		if cs := x.st.CheckState(cid); cs != nil {
			x.dirty["chk:"+op.Chk.ID] = true
			status := cs.Check.Status
			if op.Chk.Status != "" {
				status = verifC16Status(op.Chk.Status)
			}
			x.st.UpdateCheck(cid, status, op.Chk.Output)
			x.wantUpdate(op.Chk.ID, status, op.Chk.Output)
			if after := x.st.CheckState(cid); after != nil && after.DeferCheck != nil {
				x.label("deferred-output")
			}
		}
	case op.K == "meta":
		// agent reload: unloadMetadata + loadMetadata
		x.st.UnloadMetadata()
		x.wantMeta = map[string]string{"consul-network-segment": "", "consul-version": "1.22.5", "m": op.Meta}
		_ = x.st.LoadMetadata(map[string]string{"consul-network-segment": "", "consul-version": "1.22.5", "m": op.Meta})
	case op.K == "discard":
		x.st.SetDiscardCheckOutput(op.Discard)
		x.discard = op.Discard
	case strings.HasPrefix(op.K, "d-"):
		x.drift(op)
		x.invariant("drift")
		return
	case op.K == "sync-changes" || op.K == "sync-full":
		x.sync(op.K == "sync-full", false)
		return
	default:
		x.f.Fatalf("harness: unknown op %q", op.K)
	}
	x.invariant("local")
}

type verifC16Managed struct{ consul, serf bool }

func (x *verifC16Run) managed() verifC16Managed {
	return verifC16Managed{consul: x.cat.services()[structs.ConsulServiceID] != nil, serf: x.cat.checks()[string(structs.SerfCheckID)] != nil}
}

// sync runs one SyncChanges / SyncFull and applies the oracle. final = the closing fault-free SyncFull.
func (x *verifC16Run) sync(full, final bool) {
	x.cat.beginSync(x.nSync, final)
	x.nSync++
	before := x.managed()
	etoTags := map[string][]string{}
	if full {
		for id, s := range x.cat.services() {
			etoTags[id] = append([]string{}, s.Tags...)
		}
	}
	refusedBefore := map[string]bool{}
	if full {
		for e := range x.refused {
			refusedBefore[e] = true
		}
	}
	// checks whose removal is pending (Deleted) when the sync starts, with the service the State believes they belong to
	pending := map[string]string{}
	x.st.RLock()
	for id, c := range x.st.checks {
		if c.Deleted && c.Check != nil {
			pending[string(id.ID)] = c.Check.ServiceID
		}
	}
	x.st.RUnlock()
	var err error
	x.guard("sync", func() {
		if full {
			err = x.st.SyncFull()
		} else {
			err = x.st.SyncChanges()
		}
	})
	calls := x.cat.calls
	x.syncCalls = append(x.syncCalls, calls)

	faults, aclFaults, okWrites, natural := 0, 0, 0, ""
	for i, r := range calls {
		if r.Fault != "" {
			faults++
			x.label("fault-kind=" + r.Fault)
			x.label("fault-at=" + verifC16Class(r.Desc))
			switch {
			case i == 0:
				x.label("fault-pos=first")
			case i == len(calls)-1:
				x.label("fault-pos=last")
			default:
				x.label("fault-pos=middle")
			}
			if verifC16IsACLKind(r.Fault) && r.Write {
				aclFaults++
				for _, e := range r.Ents {
					x.refused[e] = true
				}
			}
		} else if r.OK && r.Write {
			okWrites++
		}
		if r.Natural != "" {
			natural = r.Natural
		}
		if strings.HasPrefix(r.Desc, "reg:") && !strings.HasPrefix(r.Desc, "reg:-:") && strings.Contains(r.Desc, ",") {
			x.label("piggybacked-checks>=2")
		}
	}
	if faults > 0 && okWrites > 0 {
		// a write failed in a sync in which other writes went through: partial progress
		x.label("fault-with-partial-progress")
		x.nontrivial = true
	}
	if faults > 1 {
		x.label("faults-in-one-sync>=2")
	}
	if natural != "" {
		x.label("catalog-refused-a-write-by-itself")
	}
	if full {
		x.label("sync=full")
	} else {
		x.label("sync=changes")
	}

	// (d) a pending check removal may only be dropped once the catalog no longer holds the check. deleteService drops
	// the pending removals of "the service's checks" without a deregistration of their own, trusting the catalog to
	// cascade; it decides by the LOCAL record of which service the check belongs to.
	{
		chks := x.cat.checks()
		var ids []string
		for id := range pending {
			ids = append(ids, id)
		}
		sort.Strings(ids)
		for _, id := range ids {
			r := chks[id]
			if r == nil || x.exemptRemoval("chk:"+id) {
				continue
			}
			x.st.RLock()
			c := x.st.checks[structs.NewCheckID(types.CheckID(id), nil)]
			x.st.RUnlock()
			if c != nil {
				continue // still tracked (Deleted) or registered again
			}
			deregistered := false
			for _, call := range calls {
				if call.Desc == "dereg-chk:"+id && (call.OK || call.Fault == "unknown" || call.Fault == "err-applied") {
					deregistered = true
				}
			}
			if deregistered {
				continue
			}
			if r.ServiceID != pending[id] {
				if x.fail("C16/pending-check-removal-dropped-with-service/catalog-copy-attached-elsewhere",
					"check %s was removed locally (as a check of service %q); this sync dropped the pending removal without deregistering the check, but the catalog's copy is attached to service %q and is still there (calls %s)",
					id, pending[id], r.ServiceID, verifC16Calls(calls)) {
					x.tolerated["chk:"+id] = true
				}
			}
		}
	}

	// (f) "entries refused by ACLs are retried at every full sync": an entry an earlier sync was refused for is, in a
	// full sync that got as far as pushing services and checks, either already held by the catalog or carried by an RPC.
	if full && x.cat.diffDone {
		aborted := false // SyncChanges returns before services/checks when the node-info registration fails
		carried := map[string]bool{}
		for _, call := range calls {
			if call.Desc == "reg-node" && !call.OK && !verifC16IsACLKind(call.Fault) {
				aborted = true
			}
			if call.Write {
				for _, e := range call.Ents {
					carried[e] = true
				}
			}
		}
		var ents []string
		for e := range refusedBefore {
			ents = append(ents, e)
		}
		sort.Strings(ents)
		for _, e := range ents {
			if aborted || carried[e] || len(e) < 5 {
				continue
			}
			id := e[4:]
			held := true
			switch e[:4] {
			case "svc:":
				if l := x.st.Service(structs.NewServiceID(id, nil)); l != nil {
					r := x.diffSvcs[id]
					held = r != nil && verifC16DiffService(l, r) == ""
				}
			case "chk:":
				if l := x.st.CheckState(structs.NewCheckID(types.CheckID(id), nil)); l != nil {
					r := x.diffChks[id]
					if r != nil {
						// a difference only in fields IsSame does not look at is the other finding, not a missing retry
						d := verifC16DiffCheck(l.Check, r, true)
						held = d == "" || verifC16CheckFieldKey("", d) != ""
					} else {
						held = false
					}
				}
			}
			if !held {
				if x.fail("C16/acl-refused-entry-not-retried-at-full-sync", "%s was refused by ACLs in an earlier sync, the catalog did not hold it (equal) when this full sync compared, and no RPC of this full sync carried it (calls %s)", e, verifC16Calls(calls)) {
					x.tolerated[e] = true
				}
			}
		}
	}

	// (e) entries the agent documents as managed by the servers are never deregistered by it
	after := x.managed()
	if before.consul && !after.consul {
		x.fail("C16/server-managed-entry-removed/consul-service", "the `consul` service was in the catalog before the sync and is gone after it (calls %s)", verifC16Calls(calls))
	}
	if before.serf && !after.serf {
		x.fail("C16/server-managed-entry-removed/serfHealth", "the serfHealth check was in the catalog before the sync and is gone after it (calls %s)", verifC16Calls(calls))
	}

	// (b) after ANY sync
	x.invariant("sync")

	clean := err == nil && faults == 0 && natural == ""
	if full && clean {
		x.converged(calls)
		// tags of a service under EnableTagOverride belong to the catalog ("external agents can update this service's
		// tags in the catalog and the agent will not revert them"): a full sync adopts them, never overwrites them
		var reverted []string
		now := x.cat.services()
		for id, l := range x.st.AllServices() {
			if !l.EnableTagOverride {
				continue
			}
			was, had := etoTags[id.ID]
			if r := now[id.ID]; had && r != nil && !verifC16SameTags(was, r.Tags) {
				reverted = append(reverted, fmt.Sprintf("service %s has EnableTagOverride; catalog tags before the full sync %v, after %v", id.ID, was, r.Tags))
			}
		}
		sort.Strings(reverted)
		for _, d := range reverted {
			x.fail("C16/tag-override-tags-overwritten", "%s (calls %s)", d, verifC16Calls(calls))
		}
	}
	if clean {
		x.dirty = map[string]bool{}
	}
	if final {
		if err != nil || natural != "" {
			if x.fail("C16/final-fullsync-error", "fault-free SyncFull at the end of the scenario returned %v (catalog said %q; calls %s)", err, natural, verifC16Calls(calls)) {
				return
			}
		}
		if aclRefusedBefore := x.labels["fault-kind=perm"] || x.labels["fault-kind=perm-rpc"] || x.labels["fault-kind=aclnotfound"]; aclRefusedBefore {
			x.label("acl-refusal-then-converged")
		}
	}
	_ = aclFaults
}

func verifC16Class(desc string) string {
	switch {
	case strings.HasPrefix(desc, "read-"):
		return "read"
	case desc == "reg-node":
		return "node-register"
	case strings.HasPrefix(desc, "reg:-:"):
		return "check-register"
	case strings.HasPrefix(desc, "reg:") && strings.HasSuffix(desc, ":"):
		return "service-register"
	case strings.HasPrefix(desc, "reg:"):
		return "service+check-register"
	case strings.HasPrefix(desc, "dereg-svc:"):
		return "service-deregister"
	case strings.HasPrefix(desc, "dereg-chk:"):
		return "check-deregister"
	}
	return "other"
}

func verifC16Calls(calls []verifC16RPCRec) string {
	var parts []string
	for _, r := range calls {
		s := r.Desc
		switch {
		case r.Fault != "":
			s += "!" + r.Fault
		case !r.OK:
			s += "!catalog:" + r.Natural
		}
		parts = append(parts, s)
	}
	return "[" + strings.Join(parts, " ") + "]"
}

// ---- the oracle

func verifC16SameTags(a, b []string) bool {
	if len(a) != len(b) {
		return false
	}
	for i := range a {
		if a[i] != b[i] {
			return false
		}
	}
	return true
}

func verifC16JSON(v any) string {
	b, _ := json.Marshal(v)
	return string(b)
}

func verifC16NormMap(m map[string]string) map[string]string {
	if len(m) == 0 {
		return nil
	}
	return m
}

// verifC16DiffService compares the fields the agent owns. Returns the name of the first differing field ("" = equal).
// Not compared: Raft indexes; tagged addresses whose key has the reserved "consul-" prefix (set by the servers, merged
// back into the local copy by updateSyncState); nil vs empty collections (msgpack does not preserve the difference).
func verifC16DiffService(l, r *structs.NodeService) string {
	strip := func(m map[string]structs.ServiceAddress) map[string]structs.ServiceAddress {
		out := map[string]structs.ServiceAddress{}
		for k, v := range m {
			if !strings.HasPrefix(k, structs.MetaKeyReservedPrefix) {
				out[k] = v
			}
		}
		return out
	}
	w := func(x *structs.Weights) structs.Weights {
		if x == nil {
			return structs.Weights{}
		}
		return *x
	}
	switch {
	case l.ID != r.ID:
		return "ID"
	case l.Service != r.Service:
		return "Service"
	case !verifC16SameTags(l.Tags, r.Tags):
		return "Tags"
	case l.Address != r.Address:
		return "Address"
	case l.Port != r.Port:
		return "Port"
	case verifC16JSON(verifC16NormMap(l.Meta)) != verifC16JSON(verifC16NormMap(r.Meta)):
		return "Meta"
	case w(l.Weights) != w(r.Weights):
		return "Weights"
	case l.EnableTagOverride != r.EnableTagOverride:
		return "EnableTagOverride"
	case l.Kind != r.Kind:
		return "Kind"
	case l.Connect.Native != r.Connect.Native:
		return "Connect.Native"
	case verifC16JSON(strip(l.TaggedAddresses)) != verifC16JSON(strip(r.TaggedAddresses)):
		return "TaggedAddresses"
	}
	return ""
}

// verifC16DiffCheck compares the fields the agent owns. ServiceName / ServiceTags are not compared: the catalog
// derives them from its own service record on every check write (state.ensureCheckTxn). skipOutput: the local check
// has an active deferral timer (CheckUpdateInterval), in which case updateSyncState itself leaves the output alone.
func verifC16DiffCheck(l, r *structs.HealthCheck, skipOutput bool) string {
	switch {
	case l.CheckID != r.CheckID:
		return "CheckID"
	case l.Name != r.Name:
		return "Name"
	case l.Status != r.Status:
		return "Status"
	case l.Notes != r.Notes:
		return "Notes"
	case !skipOutput && l.Output != r.Output:
		return "Output"
	case l.ServiceID != r.ServiceID:
		return "ServiceID"
	case l.Type != r.Type:
		return "Type"
	case l.Interval != r.Interval:
		return "Interval"
	case l.Timeout != r.Timeout:
		return "Timeout"
	}
	return ""
}

func (x *verifC16Run) exemptRemoval(ent string) bool {
	return x.driftAll || x.drifted[ent] || x.tolerated[ent]
}

func (x *verifC16Run) exempt(ent string) bool {
	return x.driftAll || x.refused[ent] || x.drifted[ent] || x.tolerated[ent]
}

// invariant is oracle (b), checked after every op (phase = kind of the op that just ran):
//
//	(b1) an entry flagged InSync is held by the catalog with equal agent-owned fields — unless an RPC carrying it was
//	     refused by ACLs since the flags were last recomputed from the catalog (the code marks such entries in sync on
//	     purpose and retries them at the next full sync), or drift touched it since then (the flag is only as fresh as
//	     the last diff);
//	(b2) an entry removed by a local op is gone from the catalog or still tracked as Deleted by the State.
func (x *verifC16Run) invariant(phase string) {
	x.localRecord(phase)
	type finding struct{ key, ent, detail string }
	var fs []finding
	svcs, chks := x.cat.services(), x.cat.checks()

	x.st.RLock()
	for id, s := range x.st.services {
		ent := "svc:" + id.ID
		if s.Deleted || !s.InSync || x.exempt(ent) {
			continue
		}
		r := svcs[id.ID]
		if r == nil {
			fs = append(fs, finding{verifC16FlagKey(phase, "service", "not-in-catalog"), ent,
				fmt.Sprintf("service %s is flagged InSync but the catalog does not hold it", id.ID)})
			continue
		}
		if d := verifC16DiffService(s.Service, r); d != "" {
			fs = append(fs, finding{verifC16FlagKey(phase, "service", "differs."+d), ent,
				fmt.Sprintf("service %s is flagged InSync but differs from the catalog in %s:\n local   %s\n catalog %s", id.ID, d, verifC16JSON(s.Service), verifC16JSON(r))})
		}
	}
	for id, c := range x.st.checks {
		ent := "chk:" + string(id.ID)
		if c.Deleted || !c.InSync || x.exempt(ent) {
			continue
		}
		r := chks[string(id.ID)]
		if r == nil {
			fs = append(fs, finding{verifC16FlagKey(phase, "check", "not-in-catalog"), ent,
				fmt.Sprintf("check %s is flagged InSync but the catalog does not hold it", id.ID)})
			continue
		}
		if d := verifC16DiffCheck(c.Check, r, c.DeferCheck != nil); d != "" {
			fs = append(fs, finding{verifC16CheckFieldKey(verifC16FlagKey(phase, "check", "differs."+d), d), ent,
				fmt.Sprintf("check %s is flagged InSync but differs from the catalog in %s:\n local   %s\n catalog %s", id.ID, d, verifC16JSON(c.Check), verifC16JSON(r))})
		}
	}
	for ent := range x.removed {
		if x.driftAll || x.drifted[ent] || x.tolerated[ent] {
			continue
		}
		id := ent[4:]
		if strings.HasPrefix(ent, "svc:") {
			if svcs[id] == nil {
				continue
			}
			if s := x.st.services[structs.NewServiceID(id, nil)]; s != nil && s.Deleted {
				continue
			}
			fs = append(fs, finding{"C16/local-deregistration-forgotten/service", ent,
				fmt.Sprintf("service %s was removed locally, the catalog still holds it and the State no longer tracks the removal", id)})
		} else {
			if chks[id] == nil {
				continue
			}
			if c := x.st.checks[structs.NewCheckID(types.CheckID(id), nil)]; c != nil && c.Deleted {
				continue
			}
			fs = append(fs, finding{"C16/local-deregistration-forgotten/check", ent,
				fmt.Sprintf("check %s was removed locally, the catalog still holds it and the State no longer tracks the removal", id)})
		}
	}
	x.st.RUnlock()

	sort.Slice(fs, func(i, j int) bool { return fs[i].key+fs[i].ent < fs[j].key+fs[j].ent })
	for _, f := range fs {
		if x.fail(f.key, "%s\n(last sync calls %s)", f.detail, x.lastCalls()) {
			x.tolerated[f.ent] = true
		}
	}
}

// localRecord is oracle (g): the agent's own record (State.AllServices / AllChecks / Metadata — what /v1/agent/services
// shows and what every later sync pushes) equals what the local ops registered, field by field. A sync may change
// exactly what updateSyncState documents: the Tags of a service whose LOCAL registration has EnableTagOverride, and
// tagged addresses under the servers' reserved "consul-" prefix ("set by the server ... merged back into the local
// state"). Nothing else is the servers' to dictate: not the tags of a service registered without tag override (whatever
// the catalog copy's flag says), no other tagged address, no check field (a deferred output stays local, it is never
// replaced by the catalog's).
func (x *verifC16Run) localRecord(phase string) {
	type finding struct{ what, ent, detail string }
	var fs []finding
	got := x.st.AllServices()
	for id, w := range x.wantSvc {
		l := got[structs.NewServiceID(id, nil)]
		if l == nil {
			fs = append(fs, finding{"service-lost", "svc:" + id, fmt.Sprintf("service %s was registered locally and never removed, the State no longer lists it", id)})
			continue
		}
		cmp := *l
		if w.EnableTagOverride {
			cmp.Tags = w.Tags
		}
		if d := verifC16DiffService(w, &cmp); d != "" {
			fs = append(fs, finding{"service." + d, "svc:" + id, fmt.Sprintf("service %s: local record differs from its registration in %s:\n registered %s\n State has  %s", id, d, verifC16JSON(w), verifC16JSON(l))})
		}
	}
	for id := range got {
		if x.wantSvc[id.ID] == nil {
			fs = append(fs, finding{"service-appeared", "svc:" + id.ID, fmt.Sprintf("the State lists service %s which no local op registered", id.ID)})
		}
	}
	gotc := x.st.AllChecks()
	for id, w := range x.wantChk {
		l := gotc[structs.NewCheckID(types.CheckID(id), nil)]
		if l == nil {
			fs = append(fs, finding{"check-lost", "chk:" + id, fmt.Sprintf("check %s was registered locally and never removed, the State no longer lists it", id)})
			continue
		}
		if d := verifC16DiffCheck(w, l, false); d != "" {
			fs = append(fs, finding{"check." + d, "chk:" + id, fmt.Sprintf("check %s: local record differs from its registration in %s:\n registered %s\n State has  %s", id, d, verifC16JSON(w), verifC16JSON(l))})
		}
	}
	for id := range gotc {
		if x.wantChk[string(id.ID)] == nil {
			fs = append(fs, finding{"check-appeared", "chk:" + string(id.ID), fmt.Sprintf("the State lists check %s which no local op registered", id.ID)})
		}
	}
	if m := x.st.Metadata(); verifC16JSON(m) != verifC16JSON(x.wantMeta) {
		fs = append(fs, finding{"node-meta", "node", fmt.Sprintf("node metadata: loaded %s, State has %s", verifC16JSON(x.wantMeta), verifC16JSON(m))})
	}
	sort.Slice(fs, func(i, j int) bool { return fs[i].what+fs[i].ent < fs[j].what+fs[j].ent })
	for _, f := range fs {
		key := "C16/local-record-modified-by-sync/" + f.what
		if phase != "sync" {
			// after a local or drift op only the harness's own mirror of agent.go could be off
			key = "C16/local-record-differs-from-registration/after-" + phase + "/" + f.what
		}
		if x.fail(key, "%s\n(last sync calls %s)", f.detail, x.lastCalls()) {
			// tolerated: adopt the real record and go on
			id := f.ent[4:]
			switch {
			case strings.HasPrefix(f.ent, "svc:"):
				if l := got[structs.NewServiceID(id, nil)]; l != nil {
					x.wantSvc[id] = l
				} else {
					delete(x.wantSvc, id)
				}
			case strings.HasPrefix(f.ent, "chk:"):
				if l := gotc[structs.NewCheckID(types.CheckID(id), nil)]; l != nil {
					x.wantChk[id] = l
				} else {
					delete(x.wantChk, id)
				}
			default:
				x.wantMeta = x.st.Metadata()
			}
		}
	}
}

// Type / Interval / Timeout of a check are not part of HealthCheck.IsSame, which both the agent's diff and the
// catalog's no-op detection use: one signature wherever that surfaces.
func verifC16CheckFieldKey(key, field string) string {
	switch field {
	case "Type", "Interval", "Timeout":
		return "C16/check-field-not-compared-by-IsSame"
	}
	return key
}

// verifC16FlagKey: signature of a broken (b1). A flag that is wrong right after a LOCAL op was set by that op
// (set*StateLocked inherits "in sync" from comparing with the previous local entry); after a sync it was set, or
// left standing, by the sync.
func verifC16FlagKey(phase, kind, what string) string {
	if phase == "local" {
		return "C16/local-op-marks-unsynced-entry-insync/" + kind
	}
	return "C16/insync-but-" + what + "/" + kind + "/after-" + phase
}

func (x *verifC16Run) lastCalls() string {
	if len(x.syncCalls) == 0 {
		return "[]"
	}
	return verifC16Calls(x.syncCalls[len(x.syncCalls)-1])
}

// converged is oracle (a)/(c): after a SyncFull that returned nil and during which no RPC failed, the catalog's
// services and checks of the node equal AllServices / AllChecks on agent-owned fields. The `consul` service and the
// serfHealth check are the servers' and stay out of the comparison (updateSyncState skips them on purpose).
func (x *verifC16Run) converged(calls []verifC16RPCRec) {
	const what = "fullsync-not-converged"
	svcs, chks := x.cat.services(), x.cat.checks()
	lsvcs, lchks := x.st.AllServices(), x.st.AllCheckStates()
	type finding struct{ key, detail string }
	var fs []finding
	for id, l := range lsvcs {
		r := svcs[id.ID]
		if r == nil {
			fs = append(fs, finding{"C16/" + what + "/service-missing-in-catalog", fmt.Sprintf("local service %s is not in the catalog", id.ID)})
			continue
		}
		if d := verifC16DiffService(l, r); d != "" {
			fs = append(fs, finding{"C16/" + what + "/service-differs." + d, fmt.Sprintf("service %s differs in %s:\n local   %s\n catalog %s", id.ID, d, verifC16JSON(l), verifC16JSON(r))})
		}
	}
	for id, r := range svcs {
		for k := range r.TaggedAddresses {
			if strings.HasPrefix(k, structs.MetaKeyReservedPrefix) {
				x.label("catalog-holds-server-owned-tagged-address:" + k)
			}
		}
		if id == structs.ConsulServiceID {
			continue
		}
		if _, ok := lsvcs[structs.NewServiceID(id, nil)]; !ok {
			fs = append(fs, finding{"C16/" + what + "/foreign-service-left-in-catalog", fmt.Sprintf("catalog service %s is not registered locally", id)})
		}
	}
	for id, l := range lchks {
		r := chks[string(id.ID)]
		if r == nil {
			fs = append(fs, finding{"C16/" + what + "/check-missing-in-catalog", fmt.Sprintf("local check %s is not in the catalog", id.ID)})
			continue
		}
		if d := verifC16DiffCheck(l.Check, r, l.DeferCheck != nil); d != "" {
			fs = append(fs, finding{verifC16CheckFieldKey("C16/"+what+"/check-differs."+d, d), fmt.Sprintf("check %s differs in %s:\n local   %s\n catalog %s", id.ID, d, verifC16JSON(l.Check), verifC16JSON(r))})
		}
	}
	for id := range chks {
		if id == string(structs.SerfCheckID) {
			continue
		}
		if _, ok := lchks[structs.NewCheckID(types.CheckID(id), nil)]; !ok && !x.tolerated["chk:"+id] {
			fs = append(fs, finding{"C16/" + what + "/foreign-check-left-in-catalog", fmt.Sprintf("catalog check %s is not registered locally", id)})
		}
	}
	sort.Slice(fs, func(i, j int) bool { return fs[i].key+fs[i].detail < fs[j].key+fs[j].detail })
	for _, f := range fs {
		x.fail(f.key, "after a SyncFull that returned nil with no failed RPC: %s\n(calls %s)", f.detail, verifC16Calls(calls))
	}
}

// verifC16Execute runs a whole scenario (without the cfg op) under a plan, then the closing fault-free SyncFull.
func verifC16Execute(f verifkit.F, c *verifkit.Case, rec *verifkit.Rec, cfg verifC16Op, ops []verifC16Op, plan []verifC16Fault, planRecorded bool) *verifC16Run {
	x := verifC16NewRun(f, c, rec, cfg, plan)
	x.planRecorded = planRecorded
	defer x.close()
	for _, op := range ops {
		x.step(op)
	}
	// (c) one further fault-free full sync converges
	x.sync(true, true)
	c.Step()
	return x
}
