//go:build verif

// Package verifc15 is the shared part of the C15 harness (discovery-chain compilation is closed,
// terminating and deterministic). It is injected by build overlay only and is imported by the in-package
// test files of agent/consul/discoverychain (direct mode) and agent/consul/state (store mode).
//
// It must import neither of those two packages (import cycles in in-package tests): the compile call is
// handed in as a closure.
//
// Contents: the JSON-serialisable entry grammar (Entry) and its translation into real config entries
// exactly as the ConfigEntry.Apply endpoint shapes them (Normalize, then Validate), the rapid generators,
// the reference-graph analysis (non-triviality, "a cycle must be reported" model), the oracle over a
// compiled chain, the canonical form used for the determinism comparison and the compile watchdog.
package verifc15

import (
	"encoding/json"
	"fmt"
	"os"
	"regexp"
	"runtime"
	"runtime/debug"
	"sort"
	"strings"
	"sync"
	"sync/atomic"
	"time"

	"github.com/hashicorp/consul/agent/configentry"
	"github.com/hashicorp/consul/agent/structs"
	"github.com/hashicorp/consul/internal/verifkit"
	"github.com/hashicorp/consul/proto/private/pbcommon"
	"github.com/hashicorp/consul/proto/private/pbpeering"
	"pgregory.net/rapid"
)

// ---------------------------------------------------------------------------------------------
// entry grammar

var (
	Services = []string{"web", "api", "db", "cache"}
	Subsets  = []string{"v1", "v2"}
	Peers    = []string{"peerA", "peerB"}
	DCs      = []string{"dc1", "dc2", "dc3"}
	Kinds    = []string{structs.ServiceDefaults, structs.ProxyDefaults, structs.ServiceResolver, structs.ServiceSplitter, structs.ServiceRouter}
)

type Redirect struct {
	Service    string `json:"service,omitempty"`
	Subset     string `json:"subset,omitempty"`
	Datacenter string `json:"dc,omitempty"`
	Peer       string `json:"peer,omitempty"`
}

type Target struct {
	Service    string `json:"service,omitempty"`
	Subset     string `json:"subset,omitempty"`
	Datacenter string `json:"dc,omitempty"`
	Peer       string `json:"peer,omitempty"`
}

type Failover struct {
	Key         string   `json:"key"` // subset name or "*"
	Service     string   `json:"service,omitempty"`
	Subset      string   `json:"subset,omitempty"`
	Datacenters []string `json:"dcs,omitempty"`
	Targets     []Target `json:"targets,omitempty"`
}

type Split struct {
	W       int    `json:"w"` // weight in 1/100 percent (10000 = 100%)
	Service string `json:"service,omitempty"`
	Subset  string `json:"subset,omitempty"`
	Hdr     string `json:"hdr,omitempty"` // request header "x-split" set to this value
}

type Route struct {
	Prefix  string `json:"prefix,omitempty"`
	NoDest  bool   `json:"nodest,omitempty"`
	Service string `json:"service,omitempty"`
	Subset  string `json:"subset,omitempty"`
	Retries int    `json:"retries,omitempty"`
}

// Entry is one config entry of the reduced grammar. Only the fields of its Kind are used.
type Entry struct {
	Kind string `json:"kind"`
	Name string `json:"name"`

	// service-defaults / proxy-defaults
	Protocol    string `json:"protocol,omitempty"`
	MeshGateway string `json:"mgw,omitempty"`
	ExternalSNI string `json:"sni,omitempty"`

	// service-resolver
	DefaultSubset    string     `json:"default_subset,omitempty"`
	Subsets          []string   `json:"subsets,omitempty"`
	Redirect         *Redirect  `json:"redirect,omitempty"`
	Failover         []Failover `json:"failover,omitempty"`
	ConnectTimeoutMs int        `json:"connect_timeout_ms,omitempty"`
	LB               string     `json:"lb,omitempty"`

	// service-splitter
	Splits []Split `json:"splits,omitempty"`

	// service-router
	Routes []Route `json:"routes,omitempty"`
}

func (e Entry) Key() string { return e.Kind + "/" + e.Name }

// Build translates the grammar entry into a fresh consul config entry and shapes it as the
// ConfigEntry.Apply endpoint does before the raft apply: Normalize, then Validate. A non-nil error means the
// endpoint would have refused the entry; such entries never reach the compiler or the store.
func Build(e Entry) (structs.ConfigEntry, error) {
	var out structs.ConfigEntry
	switch e.Kind {
	case structs.ServiceDefaults:
		out = &structs.ServiceConfigEntry{
			Kind:        structs.ServiceDefaults,
			Name:        e.Name,
			Protocol:    e.Protocol,
			MeshGateway: structs.MeshGatewayConfig{Mode: structs.MeshGatewayMode(e.MeshGateway)},
			ExternalSNI: e.ExternalSNI,
		}
	case structs.ProxyDefaults:
		pd := &structs.ProxyConfigEntry{
			Kind:        structs.ProxyDefaults,
			Name:        structs.ProxyConfigGlobal,
			MeshGateway: structs.MeshGatewayConfig{Mode: structs.MeshGatewayMode(e.MeshGateway)},
		}
		if e.Protocol != "" {
			pd.Config = map[string]interface{}{"protocol": e.Protocol}
		}
		out = pd
	case structs.ServiceResolver:
		r := &structs.ServiceResolverConfigEntry{
			Kind:           structs.ServiceResolver,
			Name:           e.Name,
			DefaultSubset:  e.DefaultSubset,
			ConnectTimeout: time.Duration(e.ConnectTimeoutMs) * time.Millisecond,
		}
		if len(e.Subsets) > 0 {
			r.Subsets = map[string]structs.ServiceResolverSubset{}
			for _, s := range e.Subsets {
				// no Filter: parsing a bexpr filter in Validate is the single most expensive part of a case and the
				// filter is only copied into the target by the compiler
				r.Subsets[s] = structs.ServiceResolverSubset{OnlyPassing: s == "v2"}
			}
		}
		if e.Redirect != nil {
			r.Redirect = &structs.ServiceResolverRedirect{
				Service: e.Redirect.Service, ServiceSubset: e.Redirect.Subset,
				Datacenter: e.Redirect.Datacenter, Peer: e.Redirect.Peer,
			}
		}
		if len(e.Failover) > 0 {
			r.Failover = map[string]structs.ServiceResolverFailover{}
			for _, f := range e.Failover {
				sf := structs.ServiceResolverFailover{Service: f.Service, ServiceSubset: f.Subset}
				sf.Datacenters = append(sf.Datacenters, f.Datacenters...)
				for _, t := range f.Targets {
					sf.Targets = append(sf.Targets, structs.ServiceResolverFailoverTarget{
						Service: t.Service, ServiceSubset: t.Subset, Datacenter: t.Datacenter, Peer: t.Peer,
					})
				}
				r.Failover[f.Key] = sf
			}
		}
		switch e.LB {
		case "":
		case structs.LBPolicyRingHash, structs.LBPolicyMaglev:
			r.LoadBalancer = &structs.LoadBalancer{Policy: e.LB, HashPolicies: []structs.HashPolicy{{SourceIP: true}}}
		default:
			r.LoadBalancer = &structs.LoadBalancer{Policy: e.LB}
		}
		out = r
	case structs.ServiceSplitter:
		s := &structs.ServiceSplitterConfigEntry{Kind: structs.ServiceSplitter, Name: e.Name}
		for _, sp := range e.Splits {
			ss := structs.ServiceSplit{Weight: float32(sp.W) / 100, Service: sp.Service, ServiceSubset: sp.Subset}
			if sp.Hdr != "" {
				ss.RequestHeaders = &structs.HTTPHeaderModifiers{Set: map[string]string{"x-split": sp.Hdr}}
			}
			s.Splits = append(s.Splits, ss)
		}
		out = s
	case structs.ServiceRouter:
		r := &structs.ServiceRouterConfigEntry{Kind: structs.ServiceRouter, Name: e.Name}
		for _, rt := range e.Routes {
			sr := structs.ServiceRoute{}
			if rt.Prefix != "" {
				sr.Match = &structs.ServiceRouteMatch{HTTP: &structs.ServiceRouteHTTPMatch{PathPrefix: rt.Prefix}}
			}
			if !rt.NoDest {
				sr.Destination = &structs.ServiceRouteDestination{Service: rt.Service, ServiceSubset: rt.Subset, NumRetries: uint32(rt.Retries)}
			}
			r.Routes = append(r.Routes, sr)
		}
		out = r
	default:
		return nil, fmt.Errorf("harness: unknown kind %q", e.Kind)
	}
	if err := out.Normalize(); err != nil {
		return nil, err
	}
	if err := out.Validate(); err != nil {
		return nil, err
	}
	return out, nil
}

// BuildSet inserts freshly built copies of the entries, in the given order, into a fresh DiscoveryChainSet.
// Entries the endpoint would refuse are skipped. order == nil means the natural order.
func BuildSet(entries []Entry, order []int, peers []string) *configentry.DiscoveryChainSet {
	set := configentry.NewDiscoveryChainSet()
	if order == nil {
		order = make([]int, len(entries))
		for i := range order {
			order[i] = i
		}
	}
	for _, i := range order {
		if i < 0 || i >= len(entries) {
			continue
		}
		ce, err := Build(entries[i])
		if err != nil {
			continue
		}
		set.AddEntries(ce)
	}
	for _, p := range peers {
		set.AddPeers(&pbpeering.Peering{Name: p, Remote: &pbpeering.RemoteInfo{Partition: "default", Datacenter: "remote-" + p,
			Locality: &pbcommon.Locality{Region: "us-" + p, Zone: "z1"}}})
	}
	return set
}

// ---------------------------------------------------------------------------------------------
// generators

// Plan carries the per-case biases that make references resolvable often enough to be interesting.
type Plan struct {
	Svcs      []string
	BaseProto string
	Subsets   map[string][]string // subsets the resolver of a service (if any) will usually define
}

func GenPlan(t *rapid.T, svcs []string) *Plan {
	p := &Plan{Svcs: svcs, Subsets: map[string][]string{}}
	p.BaseProto = rapid.SampledFrom([]string{"http", "http", "http", "http", "http", "http", "grpc", "grpc", "http2", "tcp", "tcp", ""}).Draw(t, "baseproto")
	for _, s := range svcs {
		p.Subsets[s] = rapid.SampledFrom([][]string{nil, {"v1"}, {"v1", "v2"}, {"v1", "v2"}, {"v2"}}).Draw(t, "subsets_"+s)
	}
	return p
}

func (p *Plan) otherSvc(t *rapid.T, self string) string {
	var o []string
	for _, s := range p.Svcs {
		if s != self {
			o = append(o, s)
		}
	}
	if len(o) == 0 {
		return self
	}
	return rapid.SampledFrom(o).Draw(t, "othersvc")
}

func (p *Plan) refSubset(t *rapid.T, svc string, probEmptyPct int) string {
	if rapid.IntRange(0, 99).Draw(t, "subset?") < probEmptyPct {
		return ""
	}
	if ss := p.Subsets[svc]; len(ss) > 0 && rapid.IntRange(0, 99).Draw(t, "subset-known?") < 85 {
		return rapid.SampledFrom(ss).Draw(t, "subset")
	}
	return rapid.SampledFrom(Subsets).Draw(t, "subset-any")
}

var splitWeights = map[int][][]int{
	1: {{10000}},
	2: {{5000, 5000}, {3333, 6667}, {1, 9999}, {1250, 8750}, {1000, 9000}, {9000, 1000}, {6667, 3333}, {2575, 7425}, {15, 9985}},
	3: {{3333, 3333, 3334}, {5000, 2500, 2500}, {1, 1, 9998}, {1000, 4500, 4500}, {3334, 3333, 3333}, {125, 8750, 1125}},
}

func GenEntry(t *rapid.T, p *Plan, kind, name string) Entry {
	e := Entry{Kind: kind, Name: name}
	pct := func(label string) int { return rapid.IntRange(0, 99).Draw(t, label) }
	switch kind {
	case structs.ServiceDefaults:
		if pct("proto-base?") < 70 {
			e.Protocol = p.BaseProto
		} else {
			e.Protocol = rapid.SampledFrom([]string{"", "tcp", "http", "http2", "grpc"}).Draw(t, "proto")
		}
		e.MeshGateway = rapid.SampledFrom([]string{"", "", "", "local", "remote", "none"}).Draw(t, "mgw")
		if pct("sni?") < 5 {
			e.ExternalSNI = name + ".external.example.com"
		}
	case structs.ProxyDefaults:
		e.Name = structs.ProxyConfigGlobal
		switch x := pct("pd-proto?"); {
		case x < 75:
			e.Protocol = p.BaseProto
		case x < 85:
			e.Protocol = ""
		default:
			e.Protocol = rapid.SampledFrom([]string{"tcp", "http", "http2", "grpc"}).Draw(t, "proto")
		}
		e.MeshGateway = rapid.SampledFrom([]string{"", "", "local", "remote", "none"}).Draw(t, "mgw")
	case structs.ServiceResolver:
		if pct("subsets-plan?") < 85 {
			e.Subsets = append([]string(nil), p.Subsets[name]...)
		} else {
			e.Subsets = rapid.SampledFrom([][]string{nil, {"v1"}, {"v1", "v2"}, {"v2"}}).Draw(t, "subsets")
		}
		if len(e.Subsets) > 0 && pct("defsubset?") < 30 {
			e.DefaultSubset = rapid.SampledFrom(e.Subsets).Draw(t, "defsubset")
		}
		e.ConnectTimeoutMs = rapid.SampledFrom([]int{0, 0, 0, 3000, 5000, 7000}).Draw(t, "cto")
		e.LB = rapid.SampledFrom([]string{"", "", "", structs.LBPolicyRingHash, structs.LBPolicyLeastRequest, structs.LBPolicyMaglev}).Draw(t, "lb")
		switch x := pct("resolver-shape"); {
		case x < 15: // plain
		case x < 55: // redirect
			rd := &Redirect{}
			switch y := pct("redirect-shape"); {
			case y < 50:
				rd.Service = p.otherSvc(t, name)
			case y < 65:
				rd.Service = p.otherSvc(t, name)
				rd.Subset = p.refSubset(t, rd.Service, 0)
			case y < 75:
				rd.Service = name
				rd.Subset = p.refSubset(t, name, 0)
			case y < 83:
				rd.Datacenter = rapid.SampledFrom(DCs).Draw(t, "dc")
			case y < 90:
				rd.Service = p.otherSvc(t, name)
				rd.Datacenter = rapid.SampledFrom(DCs).Draw(t, "dc")
			default:
				rd.Service = rapid.SampledFrom(p.Svcs).Draw(t, "svc")
				rd.Peer = rapid.SampledFrom(Peers).Draw(t, "peer")
			}
			e.Redirect = rd
		default: // failover
			nf := 1
			if len(e.Subsets) > 0 && pct("two-failovers?") < 30 {
				nf = 2
			}
			used := map[string]bool{}
			for i := 0; i < nf; i++ {
				f := Failover{Key: "*"}
				if len(e.Subsets) > 0 && pct("fo-key?") < 45 {
					f.Key = rapid.SampledFrom(e.Subsets).Draw(t, "fo-key")
				}
				if used[f.Key] {
					continue
				}
				used[f.Key] = true
				switch y := pct("failover-shape"); {
				case y < 35:
					f.Service = p.otherSvc(t, name)
				case y < 50:
					f.Service = p.otherSvc(t, name)
					f.Subset = p.refSubset(t, f.Service, 0)
				case y < 60:
					f.Subset = p.refSubset(t, name, 0)
				case y < 78:
					f.Datacenters = rapid.SliceOfNDistinct(rapid.SampledFrom(DCs), 1, 3, rapid.ID[string]).Draw(t, "fo-dcs")
				default:
					n := rapid.IntRange(1, 3).Draw(t, "fo-ntargets")
					for j := 0; j < n; j++ {
						var tg Target
						switch z := pct("fo-target-shape"); {
						case z < 35:
							tg.Service = rapid.SampledFrom(p.Svcs).Draw(t, "svc")
						case z < 50:
							tg.Service = rapid.SampledFrom(p.Svcs).Draw(t, "svc")
							tg.Subset = p.refSubset(t, tg.Service, 0)
						case z < 60:
							tg.Subset = p.refSubset(t, name, 0)
						case z < 75:
							tg.Datacenter = rapid.SampledFrom(DCs).Draw(t, "dc")
						case z < 85:
							tg.Service = rapid.SampledFrom(p.Svcs).Draw(t, "svc")
							tg.Datacenter = rapid.SampledFrom(DCs).Draw(t, "dc")
						default:
							tg.Service = rapid.SampledFrom(p.Svcs).Draw(t, "svc")
							tg.Peer = rapid.SampledFrom(Peers).Draw(t, "peer")
						}
						f.Targets = append(f.Targets, tg)
					}
				}
				e.Failover = append(e.Failover, f)
			}
		}
	case structs.ServiceSplitter:
		n := rapid.SampledFrom([]int{1, 2, 2, 2, 3, 3}).Draw(t, "nsplits")
		seen := map[string]bool{}
		var legs []Split
		for tries := 0; len(legs) < n && tries < 12; tries++ {
			var sp Split
			switch y := pct("leg-shape"); {
			case y < 55:
				sp.Service = p.otherSvc(t, name)
			case y < 70:
				sp.Subset = p.refSubset(t, name, 0)
			case y < 80:
				// the splitter's own service, spelled either way
				if pct("self-explicit?") < 50 {
					sp.Service = name
				}
			default:
				sp.Service = p.otherSvc(t, name)
				sp.Subset = p.refSubset(t, sp.Service, 0)
			}
			svc := sp.Service
			if svc == "" {
				svc = name
			}
			k := svc + "/" + sp.Subset
			if seen[k] {
				continue
			}
			seen[k] = true
			if pct("hdr?") < 20 {
				sp.Hdr = rapid.SampledFrom([]string{"a", "b"}).Draw(t, "hdr")
			}
			legs = append(legs, sp)
		}
		ws := rapid.SampledFrom(splitWeights[len(legs)]).Draw(t, "weights")
		for i := range legs {
			legs[i].W = ws[i]
		}
		e.Splits = legs
	case structs.ServiceRouter:
		n := rapid.IntRange(1, 3).Draw(t, "nroutes")
		for i := 0; i < n; i++ {
			rt := Route{Prefix: rapid.SampledFrom([]string{"/a", "/b", "/"}).Draw(t, "prefix")}
			switch y := pct("route-shape"); {
			case y < 60:
				rt.Service = p.otherSvc(t, name)
				rt.Subset = p.refSubset(t, rt.Service, 65)
			case y < 75:
				rt.Subset = p.refSubset(t, name, 30) // own service (Service left empty)
			case y < 85:
				rt.Service = name
			default:
				rt.NoDest = true
			}
			rt.Retries = rapid.SampledFrom([]int{0, 0, 3}).Draw(t, "retries")
			e.Routes = append(e.Routes, rt)
		}
	}
	return e
}

// GenKindName draws which entry is written next. Chain-forming kinds are preferred.
func GenKindName(t *rapid.T, p *Plan) (string, string) {
	kind := rapid.SampledFrom([]string{
		structs.ServiceDefaults, structs.ServiceDefaults, structs.ProxyDefaults,
		structs.ServiceResolver, structs.ServiceResolver, structs.ServiceResolver,
		structs.ServiceSplitter, structs.ServiceSplitter, structs.ServiceSplitter,
		structs.ServiceRouter, structs.ServiceRouter,
	}).Draw(t, "kind")
	if kind == structs.ProxyDefaults {
		return kind, structs.ProxyConfigGlobal
	}
	return kind, rapid.SampledFrom(p.Svcs).Draw(t, "name")
}

// GenSet draws a set with at most one entry per (kind, name), in a drawn order. Protocol defaults that make
// L7 features legal, resolvers for the services whose subsets are referenced, and (in a share of the cases)
// a ladder of splitters over three or four services are made likely, so that deep chains compile often enough.
func GenSet(t *rapid.T, p *Plan) []Entry {
	pct := func(label string) int { return rapid.IntRange(0, 99).Draw(t, label) }
	var out []Entry
	have := map[string]bool{}
	add := func(e Entry) {
		if !have[e.Key()] {
			have[e.Key()] = true
			out = append(out, e)
		}
	}
	if pct("ladder?") < 18 {
		// splitter ladder s0 -> s1 -> s2 (-> s3), possibly closed into a cycle
		perm := rapid.Permutation(append([]string(nil), p.Svcs...)).Draw(t, "ladder-perm")
		n := rapid.IntRange(3, len(perm)).Draw(t, "ladder-len")
		closed := pct("ladder-closed?") < 20
		for i := 0; i < n; i++ {
			var next string
			switch {
			case i+1 < n:
				next = perm[i+1]
			case closed:
				next = perm[rapid.IntRange(0, n-2).Draw(t, "ladder-back")]
			default:
				continue
			}
			ws := rapid.SampledFrom(splitWeights[2]).Draw(t, "ladder-w")
			e := Entry{Kind: structs.ServiceSplitter, Name: perm[i], Splits: []Split{{W: ws[0], Service: next}}}
			rest := Split{W: ws[1]}
			switch y := pct("ladder-rest"); {
			case y < 40: // own service
			case y < 60:
				rest.Subset = p.refSubset(t, perm[i], 0)
			default:
				rest.Service = perm[n-1]
				if rest.Service == next {
					rest.Service = ""
				}
			}
			if pct("ladder-hdr?") < 30 {
				rest.Hdr = "r"
				e.Splits[0].Hdr = rapid.SampledFrom([]string{"", "l"}).Draw(t, "ladder-hdr")
			}
			e.Splits = append(e.Splits, rest)
			if pct("ladder-swap?") < 30 {
				e.Splits[0], e.Splits[1] = e.Splits[1], e.Splits[0]
				e.Splits[0].W, e.Splits[1].W = e.Splits[1].W, e.Splits[0].W
			}
			add(e)
		}
	}
	if pct("proxy-defaults?") < 60 {
		add(GenEntry(t, p, structs.ProxyDefaults, structs.ProxyConfigGlobal))
	}
	for _, s := range p.Svcs {
		if pct("defaults?") < 45 {
			add(GenEntry(t, p, structs.ServiceDefaults, s))
		}
		rp := 40
		if len(p.Subsets[s]) > 0 {
			rp = 75
		}
		if pct("resolver?") < rp {
			add(GenEntry(t, p, structs.ServiceResolver, s))
		}
		if pct("splitter?") < 40 {
			add(GenEntry(t, p, structs.ServiceSplitter, s))
		}
		if pct("router?") < 30 {
			add(GenEntry(t, p, structs.ServiceRouter, s))
		}
	}
	if len(out) > 1 {
		perm := rapid.Permutation(iota(len(out))).Draw(t, "set-order")
		sh := make([]Entry, len(out))
		for i, j := range perm {
			sh[i] = out[j]
		}
		out = sh
	}
	return out
}

func iota(n int) []int {
	out := make([]int, n)
	for i := range out {
		out[i] = i
	}
	return out
}

// ---------------------------------------------------------------------------------------------
// reference-graph analysis over grammar entries (independent of the compiler)

type Model struct {
	Routers   map[string]*Entry
	Splitters map[string]*Entry
	Resolvers map[string]*Entry
	Defaults  map[string]*Entry
	Proxy     *Entry
}

// NewModel indexes the entries the endpoint accepts (later entries of the same kind/name win).
func NewModel(entries []Entry) *Model {
	return NewModelValid(entries, nil)
}

// Valid reports, per entry, whether the endpoint accepts it.
func Valid(entries []Entry) []bool {
	out := make([]bool, len(entries))
	for i, e := range entries {
		_, err := Build(e)
		out[i] = err == nil
	}
	return out
}

// NewModelValid is NewModel with the validity of the entries already known (nil: computed here).
func NewModelValid(entries []Entry, valid []bool) *Model {
	if valid == nil {
		valid = Valid(entries)
	}
	m := &Model{Routers: map[string]*Entry{}, Splitters: map[string]*Entry{}, Resolvers: map[string]*Entry{}, Defaults: map[string]*Entry{}}
	for i := range entries {
		e := &entries[i]
		if !valid[i] {
			continue
		}
		switch e.Kind {
		case structs.ServiceRouter:
			m.Routers[e.Name] = e
		case structs.ServiceSplitter:
			m.Splitters[e.Name] = e
		case structs.ServiceResolver:
			m.Resolvers[e.Name] = e
		case structs.ServiceDefaults:
			m.Defaults[e.Name] = e
		case structs.ProxyDefaults:
			m.Proxy = e
		}
	}
	return m
}

func orSelf(s, self string) string {
	if s == "" {
		return self
	}
	return s
}

// Edges returns the cross-service references of a service, by kind of edge.
// hard = followed recursively by the compiler (router destination, splitter leg, redirect);
// soft = failover (resolved one level deep only).
func (m *Model) Edges(svc string) (hard, soft []string) {
	if r := m.Routers[svc]; r != nil {
		for _, rt := range r.Routes {
			if !rt.NoDest {
				hard = append(hard, orSelf(rt.Service, svc))
			}
		}
	}
	if s := m.Splitters[svc]; s != nil {
		for _, sp := range s.Splits {
			hard = append(hard, orSelf(sp.Service, svc))
		}
	}
	if r := m.Resolvers[svc]; r != nil {
		if r.Redirect != nil && r.Redirect.Service != "" {
			hard = append(hard, r.Redirect.Service)
		}
		for _, f := range r.Failover {
			if f.Service != "" {
				soft = append(soft, f.Service)
			}
			for _, tg := range f.Targets {
				if tg.Service != "" && tg.Peer == "" {
					soft = append(soft, tg.Service)
				}
			}
		}
	}
	return
}

func (m *Model) allServices() []string {
	seen := map[string]bool{}
	for k := range m.Routers {
		seen[k] = true
	}
	for k := range m.Splitters {
		seen[k] = true
	}
	for k := range m.Resolvers {
		seen[k] = true
	}
	out := make([]string, 0, len(seen))
	for k := range seen {
		out = append(out, k)
	}
	sort.Strings(out)
	return out
}

// Shape classifies the set: chain2 = there is a cross-service reference chain a -> b -> c of length >= 2
// (a != b, b != c); cycle = the cross-service reference graph has a cycle (self references ignored);
// hardCycle = a cycle made only of router/splitter/redirect edges.
func (m *Model) Shape() (chain2, cycle, hardCycle bool) {
	adjAll := map[string][]string{}
	adjHard := map[string][]string{}
	for _, s := range m.allServices() {
		h, so := m.Edges(s)
		for _, d := range h {
			if d != s {
				adjAll[s] = append(adjAll[s], d)
				adjHard[s] = append(adjHard[s], d)
			}
		}
		for _, d := range so {
			if d != s {
				adjAll[s] = append(adjAll[s], d)
			}
		}
	}
	for a, bs := range adjAll {
		_ = a
		for _, b := range bs {
			if len(adjAll[b]) > 0 {
				chain2 = true
			}
		}
	}
	return chain2, hasCycle(adjAll), hasCycle(adjHard)
}

func hasCycle(adj map[string][]string) bool {
	color := map[string]int{}
	var visit func(string) bool
	visit = func(n string) bool {
		color[n] = 1
		for _, d := range adj[n] {
			if color[d] == 1 {
				return true
			}
			if color[d] == 0 && visit(d) {
				return true
			}
		}
		color[n] = 2
		return false
	}
	keys := make([]string, 0, len(adj))
	for k := range adj {
		keys = append(keys, k)
	}
	sort.Strings(keys)
	for _, k := range keys {
		if color[k] == 0 && visit(k) {
			return true
		}
	}
	return false
}

// MustError is a deliberately partial model of "a redirect or splitter cycle is reported as an error".
// It returns true only when compiling service x is CERTAIN to end in an error (of any kind):
// it walks exactly the requests the compiler is bound to make unless it fails earlier -
// router routes in order then the default route, splitter legs in order, and resolver redirects that name
// a DIFFERENT service - and reports a cycle among splitters on the current recursion path or a redirect
// chain by service name that returns to a service already visited. Every redirect hop to a different
// service changes the target id, so the compiler must keep following it until its redirect history
// repeats; a splitter met again while it is still being assembled yields a cyclic node graph.
// Failover is not followed (the compiler resolves failover targets one level deep; a failover "cycle" is
// legal and simply not followed). advanced=false: routers and splitters are ignored (protocol override).
func (m *Model) MustError(x string, advanced bool) (bool, string) {
	redirectCycle := func(svc string) (bool, string) {
		seen := map[string]bool{}
		path := []string{}
		cur := svc
		for {
			path = append(path, cur)
			if seen[cur] {
				return true, "redirect cycle " + strings.Join(path, " -> ")
			}
			seen[cur] = true
			r := m.Resolvers[cur]
			if r == nil || r.Redirect == nil || r.Redirect.Service == "" || r.Redirect.Service == cur {
				return false, ""
			}
			cur = r.Redirect.Service
		}
	}
	var splitEntry func(svc string, stack []string) (bool, string)
	splitEntry = func(svc string, stack []string) (bool, string) {
		sp := m.Splitters[svc]
		if !advanced || sp == nil {
			return redirectCycle(svc)
		}
		for _, s := range stack {
			if s == svc {
				return true, "splitter cycle " + strings.Join(append(stack, svc), " -> ")
			}
		}
		stack = append(stack, svc)
		for _, leg := range sp.Splits {
			legSvc := orSelf(leg.Service, svc)
			if legSvc != svc && leg.Subset == "" && m.Splitters[legSvc] != nil {
				if bad, why := splitEntry(legSvc, stack); bad {
					return true, why
				}
				continue
			}
			if bad, why := redirectCycle(legSvc); bad {
				return true, why
			}
		}
		return false, ""
	}
	if rt := m.Routers[x]; advanced && rt != nil {
		for _, r := range rt.Routes {
			dest := x
			subset := ""
			if !r.NoDest {
				dest = orSelf(r.Service, x)
				subset = r.Subset
			}
			if subset == "" {
				if bad, why := splitEntry(dest, nil); bad {
					return true, why
				}
			} else if bad, why := redirectCycle(dest); bad {
				return true, why
			}
		}
	}
	return splitEntry(x, nil)
}

// SplitterDepth is the longest splitter -> splitter nesting below service x (0: x has no splitter).
func (m *Model) SplitterDepth(x string) int {
	var rec func(svc string, stack map[string]bool) int
	rec = func(svc string, stack map[string]bool) int {
		sp := m.Splitters[svc]
		if sp == nil || stack[svc] {
			return 0
		}
		stack[svc] = true
		best := 0
		for _, leg := range sp.Splits {
			ls := orSelf(leg.Service, svc)
			if ls != svc && leg.Subset == "" {
				if d := rec(ls, stack); d > best {
					best = d
				}
			}
		}
		delete(stack, svc)
		return best + 1
	}
	return rec(x, map[string]bool{})
}

// ---------------------------------------------------------------------------------------------
// oracle over a compiled chain

type Problem struct {
	Key    string
	Detail string
}

// CheckChain verifies closedness of a successfully compiled chain:
// the start node exists; node map keys are the nodes' own keys; every NextNode of a route or split exists;
// routers and splitters have at least one child; splitter legs lead to resolver nodes (the compiler's
// documented flattening, relied on by the xDS route generator); only the start node is a router;
// every resolver names a target that is in Targets, and so do its failover targets;
// the node graph is acyclic; every node is reachable from the start node (nothing unreachable retained);
// every target in Targets is used by a reachable resolver (nothing unused retained) and is keyed by its id.
// Together: every path from the start node ends at a resolver whose target exists.
func CheckChain(ch *structs.CompiledDiscoveryChain) *Problem {
	if ch == nil {
		return &Problem{"C15/nil-chain-without-error", "Compile returned (nil, nil)"}
	}
	if ch.StartNode == "" || ch.Nodes[ch.StartNode] == nil {
		return &Problem{"C15/start-node-missing", fmt.Sprintf("StartNode %q is not in Nodes %v", ch.StartNode, nodeKeys(ch))}
	}
	usedTargets := map[string]bool{}
	for _, k := range nodeKeys(ch) {
		n := ch.Nodes[k]
		if n == nil {
			return &Problem{"C15/nil-node", fmt.Sprintf("Nodes[%q] is nil", k)}
		}
		if n.MapKey() != k {
			return &Problem{"C15/node-key-mismatch", fmt.Sprintf("Nodes[%q] has key %q", k, n.MapKey())}
		}
		switch n.Type {
		case structs.DiscoveryGraphNodeTypeRouter:
			if k != ch.StartNode {
				return &Problem{"C15/router-not-at-start", fmt.Sprintf("router node %q is not the start node %q", k, ch.StartNode)}
			}
			if len(n.Routes) == 0 {
				return &Problem{"C15/router-without-routes", fmt.Sprintf("router node %q has no routes", k)}
			}
			for i, r := range n.Routes {
				if r == nil || r.Definition == nil {
					return &Problem{"C15/route-without-definition", fmt.Sprintf("router %q route %d has no definition", k, i)}
				}
				nx := ch.Nodes[r.NextNode]
				if nx == nil {
					return &Problem{"C15/dangling-next-node/route", fmt.Sprintf("router %q route %d -> %q which is not in Nodes %v", k, i, r.NextNode, nodeKeys(ch))}
				}
				if nx.Type == structs.DiscoveryGraphNodeTypeRouter {
					return &Problem{"C15/route-to-router", fmt.Sprintf("router %q route %d -> router %q", k, i, r.NextNode)}
				}
			}
		case structs.DiscoveryGraphNodeTypeSplitter:
			if len(n.Splits) == 0 {
				return &Problem{"C15/splitter-without-splits", fmt.Sprintf("splitter node %q has no splits", k)}
			}
			for i, s := range n.Splits {
				if s == nil {
					return &Problem{"C15/nil-split", fmt.Sprintf("splitter %q split %d is nil", k, i)}
				}
				nx := ch.Nodes[s.NextNode]
				if nx == nil {
					return &Problem{"C15/dangling-next-node/split", fmt.Sprintf("splitter %q split %d -> %q which is not in Nodes %v", k, i, s.NextNode, nodeKeys(ch))}
				}
				if nx.Type != structs.DiscoveryGraphNodeTypeResolver {
					return &Problem{"C15/split-leg-not-resolver", fmt.Sprintf("splitter %q split %d -> %s node %q (adjacent splitters must be flattened)", k, i, nx.Type, s.NextNode)}
				}
			}
		case structs.DiscoveryGraphNodeTypeResolver:
			if n.Resolver == nil {
				return &Problem{"C15/resolver-node-without-resolver", fmt.Sprintf("resolver node %q has no Resolver", k)}
			}
			if ch.Targets[n.Resolver.Target] == nil {
				return &Problem{"C15/dangling-target/resolver", fmt.Sprintf("resolver %q names target %q which is not in Targets %v", k, n.Resolver.Target, targetKeys(ch))}
			}
			usedTargets[n.Resolver.Target] = true
			if fo := n.Resolver.Failover; fo != nil {
				if len(fo.Targets) == 0 {
					return &Problem{"C15/empty-failover", fmt.Sprintf("resolver %q has a failover section without targets", k)}
				}
				for _, ft := range fo.Targets {
					if ch.Targets[ft] == nil {
						return &Problem{"C15/dangling-target/failover", fmt.Sprintf("resolver %q failover target %q is not in Targets %v", k, ft, targetKeys(ch))}
					}
					usedTargets[ft] = true
				}
			}
		default:
			return &Problem{"C15/unknown-node-type", fmt.Sprintf("node %q has type %q", k, n.Type)}
		}
	}
	// acyclic + reachability
	color := map[string]int{}
	var cyc []string
	var visit func(k string, path []string) bool
	visit = func(k string, path []string) bool {
		color[k] = 1
		path = append(path, k)
		n := ch.Nodes[k]
		var next []string
		for _, r := range n.Routes {
			next = append(next, r.NextNode)
		}
		for _, s := range n.Splits {
			next = append(next, s.NextNode)
		}
		for _, d := range next {
			if color[d] == 1 {
				cyc = append(append([]string{}, path...), d)
				return true
			}
			if color[d] == 0 && visit(d, path) {
				return true
			}
		}
		color[k] = 2
		return false
	}
	if visit(ch.StartNode, nil) {
		return &Problem{"C15/cyclic-graph-returned", fmt.Sprintf("compiled chain contains the cycle %s", strings.Join(cyc, " -> "))}
	}
	for _, k := range nodeKeys(ch) {
		if color[k] == 0 {
			return &Problem{"C15/unreachable-node-retained", fmt.Sprintf("node %q is not reachable from start node %q", k, ch.StartNode)}
		}
	}
	for _, k := range targetKeys(ch) {
		tg := ch.Targets[k]
		if tg == nil {
			return &Problem{"C15/nil-target", fmt.Sprintf("Targets[%q] is nil", k)}
		}
		if tg.ID != k {
			return &Problem{"C15/target-key-mismatch", fmt.Sprintf("Targets[%q] has ID %q", k, tg.ID)}
		}
		if !usedTargets[k] {
			return &Problem{"C15/unused-target-retained", fmt.Sprintf("target %q is referenced by no node of the chain", k)}
		}
	}
	return nil
}

func nodeKeys(ch *structs.CompiledDiscoveryChain) []string {
	out := make([]string, 0, len(ch.Nodes))
	for k := range ch.Nodes {
		out = append(out, k)
	}
	sort.Strings(out)
	return out
}

func targetKeys(ch *structs.CompiledDiscoveryChain) []string {
	out := make([]string, 0, len(ch.Targets))
	for k := range ch.Targets {
		out = append(out, k)
	}
	sort.Strings(out)
	return out
}

// Canon is the canonical form used to compare two compilation results: the error text, or the JSON encoding
// of the chain (encoding/json sorts map keys; every field of the chain is exported).
func Canon(ch *structs.CompiledDiscoveryChain, err error) string {
	if err != nil {
		return "ERR " + err.Error()
	}
	b, jerr := json.Marshal(ch)
	if jerr != nil {
		return "JSONERR " + jerr.Error()
	}
	return string(b)
}

// FirstDiff points at the first differing byte of two canonical forms.
func FirstDiff(a, b string) string {
	i := 0
	for i < len(a) && i < len(b) && a[i] == b[i] {
		i++
	}
	lo := i - 160
	if lo < 0 {
		lo = 0
	}
	cut := func(s string) string {
		hi := i + 160
		if hi > len(s) {
			hi = len(s)
		}
		return s[lo:hi]
	}
	return fmt.Sprintf("first difference at byte %d:\n A: …%s…\n B: …%s…", i, cut(a), cut(b))
}

// ErrKind classifies a compile / write error for the label distribution.
func ErrKind(err error) string {
	if err == nil {
		return "ok"
	}
	s := err.Error()
	switch {
	case strings.Contains(s, "circular resolver redirect"):
		return "circular-redirect"
	case strings.Contains(s, "circular reference"):
		return "circular-splitter"
	case strings.Contains(s, "inconsistent protocols"):
		return "protocol-mismatch"
	case strings.Contains(s, "does not permit advanced routing"):
		return "advanced-routing-on-l4"
	case strings.Contains(s, "does not have a subset named"):
		return "missing-subset"
	case strings.Contains(s, "external SNI"):
		return "external-sni"
	}
	return "other"
}

// ---------------------------------------------------------------------------------------------
// watchdog

type Outcome struct {
	Chain *structs.CompiledDiscoveryChain
	Err   error
	Panic string // non-empty: the compile panicked (value + stack)
	Site  string // panic site (first consul frame)
	Took  time.Duration
}

var frameRe = regexp.MustCompile(`(?m)^(github\.com/hashicorp/consul[^\s(]*)\(`)
var sanitize = regexp.MustCompile(`[^A-Za-z0-9_.=-]+`)

func panicSite(stack string) string {
	for _, m := range frameRe.FindAllStringSubmatch(stack, -1) {
		fn := m[1]
		if strings.Contains(fn, "verifkit") || strings.Contains(fn, "verifc15") || strings.Contains(fn, ".verif") || strings.Contains(fn, ".TestVerif") {
			continue
		}
		if i := strings.LastIndex(fn, "/"); i >= 0 {
			fn = fn[i+1:]
		}
		return sanitize.ReplaceAllString(fn, "_")
	}
	return "unknown"
}

// Run executes one compilation (or one store write, whose validation compiles) under a watchdog.
//
// The call runs on the calling goroutine; a single process-wide monitor goroutine (started on first use, one
// 250 ms ticker) looks at the call in flight. The normal cost is 0.05-5 ms and kilobytes. The monitor turns a
// call that has not returned after VERIF_C15_WATCHDOG_S seconds (default 60, i.e. >= 10^4 x normal), or during
// which the heap grew beyond VERIF_C15_MEMCAP_MB (default 2048 - a runaway that allocates would otherwise be
// killed by the address-space limit before the timer and leave no verdict), into the violation
// C15/compile-nontermination: the replay file is written from the ops recorded so far (the op in flight was
// recorded before it was executed), the VERIF-VIOLATION line is printed, statistics are flushed and the process
// exits - a stuck goroutine cannot be stopped and rapid cannot shrink inside a poisoned process.
// A panic of the code under test is recovered and returned in the outcome.
func Run(f verifkit.F, c *verifkit.Case, what func() string, fn func() (*structs.CompiledDiscoveryChain, error)) (o Outcome) {
	watchdogOnce.Do(startWatchdog)
	info := &inflight{start: time.Now(), f: f, c: c, what: what}
	current.Store(info)
	defer func() {
		current.Store(nil)
		o.Took = time.Since(info.start)
		if p := recover(); p != nil {
			tn := fmt.Sprintf("%T", p)
			if strings.HasPrefix(tn, "rapid.") || strings.HasPrefix(tn, "*rapid.") {
				panic(p) // rapid's own control flow
			}
			st := string(debug.Stack())
			o.Panic = fmt.Sprintf("%v\n%s", p, st)
			o.Site = panicSite(st)
		}
	}()
	o.Chain, o.Err = fn()
	return o
}

type inflight struct {
	start time.Time
	f     verifkit.F
	c     *verifkit.Case
	what  func() string
}

var (
	watchdogOnce sync.Once
	current      atomic.Pointer[inflight]
)

func startWatchdog() {
	limit := time.Duration(verifkit.EnvInt("VERIF_C15_WATCHDOG_S", 60)) * time.Second
	memcap := uint64(verifkit.EnvInt("VERIF_C15_MEMCAP_MB", 2048)) << 20
	go func() {
		tick := time.NewTicker(250 * time.Millisecond)
		defer tick.Stop()
		for range tick.C {
			i := current.Load()
			if i == nil {
				continue
			}
			el := time.Since(i.start)
			if el < time.Second {
				continue
			}
			hung := ""
			if el > limit {
				hung = fmt.Sprintf("time: no result after %s", el.Round(time.Second))
			} else {
				var ms runtime.MemStats
				runtime.ReadMemStats(&ms)
				if ms.HeapAlloc > memcap {
					hung = fmt.Sprintf("memory: heap grew to %d MiB within %s without a result", ms.HeapAlloc>>20, el.Round(time.Millisecond))
				}
			}
			if hung == "" || current.Load() != i {
				continue
			}
			i.c.Violation(ExitF{i.f}, "C15/compile-nontermination", "%s: %s", i.what(), hung)
			// only reached when the key is a listed known finding: the process is poisoned all the same
			verifkit.FlushAll()
			fmt.Fprintln(os.Stdout, "C15: exiting after a tolerated non-termination (the stuck goroutine cannot be stopped)")
			os.Exit(3)
		}
	}()
}

// ExitF wraps the test's failure interface for the non-termination verdict: after the violation has been
// recorded the process exits.
type ExitF struct{ verifkit.F }

func (e ExitF) Helper() {}

func (e ExitF) Fatalf(format string, args ...any) {
	fmt.Fprintf(os.Stdout, "--- FAIL: "+format+"\n", args...)
	verifkit.FlushAll()
	os.Exit(1)
}

// ---------------------------------------------------------------------------------------------
// reduced grammar for the exhaustive block: every set of <= max entries over two services

// SmallSlots returns, per (kind, name) slot, the alternative bodies of the reduced grammar.
func SmallSlots(a, b string) [][]Entry {
	var slots [][]Entry
	for _, pair := range [][2]string{{a, b}, {b, a}} {
		s, o := pair[0], pair[1]
		slots = append(slots,
			[]Entry{
				{Kind: structs.ServiceDefaults, Name: s, Protocol: "http"},
				{Kind: structs.ServiceDefaults, Name: s, Protocol: "tcp"},
				{Kind: structs.ServiceDefaults, Name: s, Protocol: "grpc"},
			},
			[]Entry{
				{Kind: structs.ServiceResolver, Name: s, Redirect: &Redirect{Service: o}},
				{Kind: structs.ServiceResolver, Name: s, Subsets: []string{"v1"}, DefaultSubset: "v1"},
				{Kind: structs.ServiceResolver, Name: s, Subsets: []string{"v1"}, Redirect: &Redirect{Service: s, Subset: "v1"}},
				{Kind: structs.ServiceResolver, Name: s, Failover: []Failover{{Key: "*", Service: o}}},
				{Kind: structs.ServiceResolver, Name: s, Subsets: []string{"v1"}, Failover: []Failover{{Key: "v1", Service: o, Subset: "v1"}}},
				{Kind: structs.ServiceResolver, Name: s, Redirect: &Redirect{Service: o, Subset: "v1"}},
				{Kind: structs.ServiceResolver, Name: s, Failover: []Failover{{Key: "*", Datacenters: []string{"dc2"}}}},
				{Kind: structs.ServiceResolver, Name: s, Redirect: &Redirect{Service: o, Peer: "peerA"}},
			},
			[]Entry{
				{Kind: structs.ServiceSplitter, Name: s, Splits: []Split{{W: 10000, Service: o}}},
				{Kind: structs.ServiceSplitter, Name: s, Splits: []Split{{W: 5000}, {W: 5000, Service: o}}},
				{Kind: structs.ServiceSplitter, Name: s, Splits: []Split{{W: 5000, Subset: "v1"}, {W: 5000, Service: o}}},
				{Kind: structs.ServiceSplitter, Name: s, Splits: []Split{{W: 3333, Service: o, Subset: "v1"}, {W: 6667, Service: o}}},
			},
			[]Entry{
				{Kind: structs.ServiceRouter, Name: s, Routes: []Route{{Prefix: "/a", Service: o}}},
				{Kind: structs.ServiceRouter, Name: s, Routes: []Route{{Prefix: "/a", Service: o, Subset: "v1"}}},
				{Kind: structs.ServiceRouter, Name: s, Routes: []Route{{Prefix: "/a", Subset: "v1"}}},
			},
		)
	}
	slots = append(slots, []Entry{
		{Kind: structs.ProxyDefaults, Name: structs.ProxyConfigGlobal, Protocol: "http"},
		{Kind: structs.ProxyDefaults, Name: structs.ProxyConfigGlobal, Protocol: "tcp"},
	})
	return slots
}

// EnumSets calls fn for every set made of at most max entries from distinct slots (the empty set excluded),
// in a fixed order; idx counts the sets. Returns the number of sets.
func EnumSets(slots [][]Entry, max int, fn func(idx int, set []Entry)) int {
	n := 0
	var rec func(from int, cur []Entry)
	rec = func(from int, cur []Entry) {
		if len(cur) > 0 {
			fn(n, append([]Entry(nil), cur...))
			n++
		}
		if len(cur) == max {
			return
		}
		for s := from; s < len(slots); s++ {
			for _, alt := range slots[s] {
				rec(s+1, append(cur, alt))
			}
		}
	}
	rec(0, nil)
	return n
}

// Permutations of 0..n-1 in lexicographic order.
func Permutations(n int) [][]int {
	var out [][]int
	var rec func(cur []int, used []bool)
	rec = func(cur []int, used []bool) {
		if len(cur) == n {
			out = append(out, append([]int(nil), cur...))
			return
		}
		for i := 0; i < n; i++ {
			if !used[i] {
				used[i] = true
				rec(append(cur, i), used)
				used[i] = false
			}
		}
	}
	rec(nil, make([]bool, n))
	return out
}

// TuneGC relaxes the collector for the allocation-heavy, tiny-heap workload of this harness (memdb
// initialisation, config entry hashing); it changes no behaviour under test.
func TuneGC() { debug.SetGCPercent(400) }

// ShardOf reports the shard index and count the driver assigned to this process.
func ShardOf() (int, int) {
	n := verifkit.EnvInt("VERIF_NSHARDS", 1)
	if n < 1 {
		n = 1
	}
	i := verifkit.EnvInt("VERIF_SHARD", 0)
	if i < 0 || i >= n {
		i = 0
	}
	return i, n
}

// DiffPath names the first place where two canonical chain encodings differ, with node / target names and
// list positions abstracted away, e.g. "Nodes/*/Splits/[]/Weight". It is the root-cause part of the
// signature of a determinism violation.
func DiffPath(a, b string) string {
	aerr, berr := strings.HasPrefix(a, "ERR "), strings.HasPrefix(b, "ERR ")
	switch {
	case aerr != berr:
		return "error-vs-chain"
	case aerr && berr:
		return "error-kind"
	}
	var va, vb any
	if json.Unmarshal([]byte(a), &va) != nil || json.Unmarshal([]byte(b), &vb) != nil {
		return "unparsable"
	}
	p := diffAny(va, vb, nil)
	if p == nil {
		return "encoding-only"
	}
	return strings.Join(p, "/")
}

func diffAny(a, b any, path []string) []string {
	switch x := a.(type) {
	case map[string]any:
		y, ok := b.(map[string]any)
		if !ok {
			return path
		}
		keys := map[string]bool{}
		for k := range x {
			keys[k] = true
		}
		for k := range y {
			keys[k] = true
		}
		ks := make([]string, 0, len(keys))
		for k := range keys {
			ks = append(ks, k)
		}
		sort.Strings(ks)
		abstract := len(path) > 0 && (path[len(path)-1] == "Nodes" || path[len(path)-1] == "Targets")
		for _, k := range ks {
			name := k
			if abstract {
				name = "*"
			}
			xv, xok := x[k]
			yv, yok := y[k]
			if xok != yok {
				return append(path, name)
			}
			if p := diffAny(xv, yv, append(path, name)); p != nil {
				return p
			}
		}
		return nil
	case []any:
		y, ok := b.([]any)
		if !ok || len(x) != len(y) {
			return append(path, "[]len")
		}
		for i := range x {
			if p := diffAny(x[i], y[i], append(path, "[]")); p != nil {
				return p
			}
		}
		return nil
	default:
		if fmt.Sprint(a) != fmt.Sprint(b) {
			return path
		}
		return nil
	}
}
