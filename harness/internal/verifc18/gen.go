//go:build verif

package verifc18

import (
	"math/bits"
	"sort"

	"pgregory.net/rapid"
)

// GenOpts tunes the generator for a target.
type GenOpts struct {
	Backend      string
	Handles      int  // number of backend handles workers may use
	AllowRestore bool // target supports snapshot/restore
	MaxOps       int  // per worker (default 30)
}

// rapid's integer and SampledFrom generators are deliberately biased towards small values / early elements (good for
// finding boundary bugs, bad for a schedule-stress generator that wants its stated weights). rapid.Bool() is
// practically fair, so uniform choices are assembled from Bool draws: every random bit still comes from rapid.
func drawBits(t *rapid.T, label string, k int) uint64 {
	var u uint64
	for i := 0; i < k; i++ {
		if rapid.Bool().Draw(t, label) {
			u |= 1 << uint(i)
		}
	}
	return u
}

// uniform draws lo..hi (modulo bias < 2%).
func uniform(t *rapid.T, label string, lo, hi int) int {
	n := hi - lo + 1
	if n <= 1 {
		return lo
	}
	return lo + int(drawBits(t, label, bits.Len(uint(n-1))+6)%uint64(n))
}

// weighted draws an index with the given weights.
func weighted(t *rapid.T, label string, weights ...int) int {
	total := 0
	for _, w := range weights {
		total += w
	}
	x := uniform(t, label, 0, total-1)
	for i, w := range weights {
		if x < w {
			return i
		}
		x -= w
	}
	return len(weights) - 1
}

// quantile draws one of 25 evenly spaced points of [0, horizon].
func quantile(t *rapid.T, label string, horizon int64) int64 {
	return horizon * int64(uniform(t, label, 0, 24)) / 24
}

func pct(t *rapid.T, label string, p int) bool {
	return weighted(t, label, p, 100-p) == 0
}

var opKinds = []string{"rmw", "write", "delete", "read", "list", "listowner"}

// GenProg draws one program.
func GenProg(t *rapid.T, o GenOpts) *Prog {
	if o.MaxOps == 0 {
		o.MaxOps = 30
	}
	if o.Handles == 0 {
		o.Handles = 1
	}
	p := &Prog{Kind: "program", Backend: o.Backend}
	p.Procs = []int{1, 2, 4, 16}[weighted(t, "procs", 3, 5, 6, 6)]
	p.Rounds = uniform(t, "rounds", 2, 8)
	p.Hot = uniform(t, "hot", 0, NumKeys-1)
	hotPct := rapid.SampledFrom([]int{40, 65, 90}).Draw(t, "hotpct")
	nW := uniform(t, "workers", 3, 6)
	total := 0
	for w := 0; w < nW; w++ {
		n := uniform(t, "nops", 5, o.MaxOps)
		ops := make([]OpProg, 0, n)
		for i := 0; i < n; i++ {
			op := OpProg{}
			op.Round = uniform(t, "round", 0, p.Rounds-1)
			op.Op = opKinds[weighted(t, "op", 30, 22, 10, 18, 12, 8)]
			if pct(t, "hot?", hotPct) {
				op.Key = p.Hot
			} else {
				op.Key = uniform(t, "key", 0, NumKeys-1)
			}
			op.H = uniform(t, "h", 0, o.Handles-1)
			op.Yield = weighted(t, "yield", 60, 20, 12, 8)
			switch op.Op {
			case "write", "delete":
				op.Ver = weighted(t, "ver", 15, 60, 15, 10)
				op.Uid = weighted(t, "uid", 75, 8, 12, 5)
				op.Pick = uniform(t, "pick", 0, 7)
			case "read":
				op.Strong = rapid.Bool().Draw(t, "strong")
				op.UidF = pct(t, "uidf", 20)
				op.Uid = weighted(t, "uid", 70, 0, 30, 0)
				op.Pick = uniform(t, "pick", 0, 7)
			case "rmw":
				op.Strong = pct(t, "strong", 75)
				op.Gap = weighted(t, "gap", 50, 30, 20)
			case "list":
				op.Q = uniform(t, "q", 0, NumQueries-1)
			case "listowner":
				op.Uid = weighted(t, "uid", 75, 0, 25, 0)
				op.Pick = uniform(t, "pick", 0, 7)
			}
			if op.Op == "write" || op.Op == "rmw" {
				op.GV2 = pct(t, "gv2", 20)
				if pct(t, "owned", 20) {
					op.Owner = 1 + uniform(t, "owner", 0, NumKeys-1)
				}
			}
			if op.Op == "read" {
				op.GV2 = pct(t, "gv2", 15)
			}
			ops = append(ops, op)
		}
		// openers: many workers start a round with a read-modify-write of the hot key, so that they present the same
		// version at the same moment
		for r := 0; r < p.Rounds && len(ops) < o.MaxOps; r++ {
			if pct(t, "opener?", 70) {
				ops = append(ops, OpProg{Round: r - 1000, Op: "rmw", Key: p.Hot, Strong: true, Gap: weighted(t, "gap", 50, 30, 20)})
			}
		}
		sort.SliceStable(ops, func(i, j int) bool { return ops[i].Round < ops[j].Round })
		for i := range ops {
			if ops[i].Round < 0 {
				ops[i].Round += 1000
			}
		}
		sort.SliceStable(ops, func(i, j int) bool { return ops[i].Round < ops[j].Round })
		n = len(ops)
		p.Workers = append(p.Workers, ops)
		total += n
	}
	// every call takes two stamps, an rmw four: the stamp counter ends around 2.5 x total
	horizon := int64(total) * 5 / 2
	nWatch := 1 + weighted(t, "watchers", 1, 1)
	sameSubject := rapid.Bool().Draw(t, "samesubject")
	for i := 0; i < nWatch; i++ {
		wp := WatcherProg{}
		if i > 0 && sameSubject {
			// a second watcher on the same {type, tenancy} subject exercises the publisher's snapshot cache and shared topic buffer
			q0 := p.Watchers[0].Q
			wp.Q = q0 - q0%3 + uniform(t, "wprefix", 0, 2)
		} else if rapid.Bool().Draw(t, "whot") {
			// a query that selects the hot key
			cands := []int{}
			for q := 0; q < NumQueries; q++ {
				if QueryOf(q).Matches(KeyOf(p.Hot)) {
					cands = append(cands, q)
				}
			}
			wp.Q = rapid.SampledFrom(cands).Draw(t, "wq")
		} else {
			wp.Q = uniform(t, "wq", 0, NumQueries-1)
		}
		wp.StartAt = quantile(t, "wstart", horizon)
		nSess := weighted(t, "wsessions", 40, 35, 25)
		for s := 0; s < nSess; s++ {
			wp.Limits = append(wp.Limits, uniform(t, "wlimit", 0, 6))
		}
		wp.ReadEvery = weighted(t, "wread", 25, 40, 20, 15)
		wp.Strong = rapid.Bool().Draw(t, "wstrong")
		wp.LazyClose = rapid.Bool().Draw(t, "wlazy")
		wp.Yield = weighted(t, "wyield", 60, 25, 15)
		p.Watchers = append(p.Watchers, wp)
	}
	if o.AllowRestore && pct(t, "restore?", 33) {
		a := quantile(t, "snapat", horizon)
		b := quantile(t, "restoreat", horizon)
		if b < a {
			a, b = b, a
		}
		p.Restore = &RestoreProg{SnapAt: a, RestoreAt: b}
	}
	return p
}
