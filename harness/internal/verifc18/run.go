//go:build verif

package verifc18

import (
	"context"
	"errors"
	"fmt"
	"runtime"
	"runtime/debug"
	"sort"
	"sync"
	"sync/atomic"
	"time"

	"github.com/hashicorp/consul/internal/storage"
	"github.com/hashicorp/consul/proto-public/pbresource"
)

// Target is the system under test as the engine sees it.
type Target struct {
	Uni     Universe
	Handles []storage.Backend // handles workers use (inmem: one; raft: leader, follower)
	Watch   storage.Backend   // where watchers subscribe and do their follow-up reads

	// Snapshot returns an iterator over a point-in-time snapshot (the point is the call itself). nil = unsupported.
	Snapshot func() (next func() *pbresource.Resource, err error)
	// Restore replaces the content wholesale. Real callers (the raft FSM) never run it concurrently with
	// WriteCAS/DeleteCAS; the engine respects that with a gate.
	Restore func(items []*pbresource.Resource) error

	// SerializeSubscribe makes WatchList wait while a restore is being committed (used while the lock-order
	// deadlock between Restoration.Commit and WatchList is a known finding, so the search can go on behind it).
	SerializeSubscribe bool

	// Bubble: the case runs inside a testing/synctest bubble (fake clock: a watch timeout then proves quiescence).
	Bubble bool
	// WatchTimeout bounds one Watch.Next call (fake time in a bubble, real time otherwise).
	WatchTimeout time.Duration
}

type seen struct{ v, u string }

type view struct {
	cur  *seen
	hist []seen
}

func (v *view) see(ver, uid string) {
	s := seen{ver, uid}
	if v.cur != nil && *v.cur == s {
		return
	}
	v.cur = &s
	for _, h := range v.hist {
		if h == s {
			return
		}
	}
	v.hist = append(v.hist, s)
}

// barrier is a cyclic barrier whose parties first busy-wait (yielding) for a bounded number of turns, so that when
// the last one arrives the others are already running and all start the round at the same moment — that is what makes
// CAS calls overlap — and then fall back to sleeping on a condition variable (a loaded machine must not burn CPU).
type barrier struct {
	mu    sync.Mutex
	cond  *sync.Cond
	n     int
	count int
	gen   atomic.Int64
}

const barrierSpins = 200

func newBarrier(n int) *barrier {
	b := &barrier{n: n}
	b.cond = sync.NewCond(&b.mu)
	return b
}

func (b *barrier) release() {
	b.count = 0
	b.gen.Add(1)
	b.cond.Broadcast()
}

func (b *barrier) wait() {
	b.mu.Lock()
	g := b.gen.Load()
	b.count++
	if b.count >= b.n {
		b.release()
		b.mu.Unlock()
		return
	}
	b.mu.Unlock()
	for i := 0; i < barrierSpins; i++ {
		if b.gen.Load() != g {
			return
		}
		runtime.Gosched()
	}
	b.mu.Lock()
	for b.gen.Load() == g {
		b.cond.Wait()
	}
	b.mu.Unlock()
}

// leave removes a party for good (a worker that is done or died).
func (b *barrier) leave() {
	b.mu.Lock()
	defer b.mu.Unlock()
	b.n--
	if b.n > 0 && b.count >= b.n {
		b.release()
	}
}

type runner struct {
	tgt   *Target
	prog  *Prog
	ctx   context.Context
	clock atomic.Int64

	gate  sync.RWMutex // writers RLock around WriteCAS/DeleteCAS; restore Locks (raft never applies during a restore)
	epoch int          // guarded by gate

	workersDone atomic.Bool
	uidSeq      atomic.Int64

	// goroutines waiting for the stamp counter to reach a value (watchers, the restorer)
	clockMu      sync.Mutex
	clockCond    *sync.Cond
	clockWaiters atomic.Int32

	mu       sync.Mutex
	calls    []Call
	sessions []Session
	panics   []string
	hasRest  bool
	rinv     int64
	rret     int64
}

func (r *runner) stamp() int64 {
	v := r.clock.Add(1)
	if r.clockWaiters.Load() > 0 {
		r.wake()
	}
	return v
}

func (r *runner) wake() {
	r.clockMu.Lock()
	r.clockCond.Broadcast()
	r.clockMu.Unlock()
}

func (r *runner) addCalls(cs []Call) {
	r.mu.Lock()
	r.calls = append(r.calls, cs...)
	r.mu.Unlock()
}

func (r *runner) guard(who string) {
	if x := recover(); x != nil {
		r.mu.Lock()
		r.panics = append(r.panics, fmt.Sprintf("%s: %v\n%s", who, x, debug.Stack()))
		r.mu.Unlock()
	}
}

func yield(n int) {
	for i := 0; i < n; i++ {
		runtime.Gosched()
	}
}

func errClass(err error) string {
	var gv storage.GroupVersionMismatchError
	switch {
	case err == nil:
		return ""
	case errors.Is(err, storage.ErrCASFailure):
		return "cas"
	case errors.Is(err, storage.ErrWrongUid):
		return "uid"
	case errors.Is(err, storage.ErrNotFound):
		return "notfound"
	case errors.As(err, &gv):
		return "gvmismatch"
	case errors.Is(err, storage.ErrWatchClosed):
		return "closed"
	}
	return "other:" + err.Error()
}

func (r *runner) ownerStr(id *pbresource.ID) string {
	if id == nil {
		return ""
	}
	return r.tgt.Uni.keyOfID(id) + "#" + id.Uid
}

func (r *runner) item(res *pbresource.Resource) Item {
	return Item{K: r.tgt.Uni.keyOfID(res.GetId()), V: res.GetVersion(), U: res.GetId().GetUid(), O: r.ownerStr(res.GetOwner())}
}

// worker state
type workerState struct {
	r     *runner
	g     int
	views map[string]*view
	calls []Call
	seq   int
}

func (w *workerState) view(k string) *view {
	v := w.views[k]
	if v == nil {
		v = &view{}
		w.views[k] = v
	}
	return v
}

func (w *workerState) freshUid() string {
	return fmt.Sprintf("u%d", w.r.uidSeq.Add(1))
}

func (w *workerState) resolveVer(v *view, choice, pick int) string {
	switch choice {
	case VerEmpty:
		return ""
	case VerLast:
		if v.cur != nil {
			return v.cur.v
		}
		return ""
	case VerStale:
		var c []string
		for _, h := range v.hist {
			if v.cur == nil || h.v != v.cur.v {
				c = append(c, h.v)
			}
		}
		if len(c) > 0 {
			return c[pick%len(c)]
		}
		if v.cur != nil {
			return v.cur.v
		}
		return "bogus"
	}
	return "bogus"
}

func (w *workerState) resolveUid(v *view, choice, pick int) string {
	switch choice {
	case UidCurrent:
		if v.cur != nil {
			return v.cur.u
		}
		return w.freshUid() // the worker believes the resource is absent: a create mints a new uid
	case UidNew:
		return w.freshUid()
	case UidStale:
		var c []string
		for _, h := range v.hist {
			if v.cur == nil || h.u != v.cur.u {
				c = append(c, h.u)
			}
		}
		if len(c) > 0 {
			return c[pick%len(c)]
		}
		return w.freshUid()
	}
	return ""
}

func (w *workerState) ownerID(owner int) *pbresource.ID {
	if owner == 0 {
		return nil
	}
	ok := KeyOf(owner - 1)
	ov := w.view(ok)
	uid := "u-none"
	if ov.cur != nil {
		uid = ov.cur.u
	} else if len(ov.hist) > 0 {
		uid = ov.hist[len(ov.hist)-1].u
	}
	return w.r.tgt.Uni.pbID(ok, "v1", uid)
}

func (w *workerState) doWrite(be storage.Backend, h int, key, pv, pu string, gv2 bool, owner *pbresource.ID) {
	r := w.r
	gv := "v1"
	if gv2 && key[0] == 'A' {
		gv = "v2"
	}
	w.seq++
	res := &pbresource.Resource{
		Id:       r.tgt.Uni.pbID(key, gv, pu),
		Version:  pv,
		Owner:    owner,
		Metadata: map[string]string{"by": fmt.Sprintf("g%d.%d", w.g, w.seq)},
	}
	c := Call{G: w.g, Op: "write", K: key, PV: pv, PU: pu, GV: gv, PO: r.ownerStr(owner), H: h}
	r.gate.RLock()
	c.Ep = r.epoch
	c.Inv = r.stamp()
	out, err := be.WriteCAS(r.ctx, res)
	c.Ret = r.stamp()
	r.gate.RUnlock()
	c.Err = errClass(err)
	if err == nil {
		it := r.item(out)
		c.R = &it
		w.view(key).see(it.V, it.U)
	}
	w.calls = append(w.calls, c)
}

func (w *workerState) doDelete(be storage.Backend, h int, key, pv, pu string) {
	r := w.r
	c := Call{G: w.g, Op: "delete", K: key, PV: pv, PU: pu, H: h}
	id := r.tgt.Uni.pbID(key, "v1", pu)
	r.gate.RLock()
	c.Ep = r.epoch
	c.Inv = r.stamp()
	err := be.DeleteCAS(r.ctx, id, pv)
	c.Ret = r.stamp()
	r.gate.RUnlock()
	c.Err = errClass(err)
	if err == nil {
		w.view(key).cur = nil
	}
	w.calls = append(w.calls, c)
}

// doRead returns the resource found (nil if none).
func (w *workerState) doRead(be storage.Backend, h int, key, uidFilter string, strong, gv2 bool) *Item {
	r := w.r
	gv := "v1"
	if gv2 && key[0] == 'A' {
		gv = "v2"
	}
	cons := storage.EventualConsistency
	if strong {
		cons = storage.StrongConsistency
	}
	c := Call{G: w.g, Op: "read", K: key, PU: uidFilter, GV: gv, Strong: strong, H: h}
	id := r.tgt.Uni.pbID(key, gv, uidFilter)
	c.Inv = r.stamp()
	res, err := be.Read(r.ctx, cons, id)
	c.Ret = r.stamp()
	c.Err = errClass(err)
	var gvm storage.GroupVersionMismatchError
	if errors.As(err, &gvm) {
		res = gvm.Stored
	}
	var out *Item
	if res != nil && (err == nil || c.Err == "gvmismatch") {
		it := r.item(res)
		c.R = &it
		out = &it
		w.view(key).see(it.V, it.U)
	} else if c.Err == "notfound" && uidFilter == "" {
		w.view(key).cur = nil
	}
	w.calls = append(w.calls, c)
	return out
}

func (w *workerState) doList(be storage.Backend, h int, q QuerySpec) {
	r := w.r
	c := Call{G: w.g, Op: "list", Q: &q, H: h}
	ten := &pbresource.Tenancy{Partition: q.Part, Namespace: q.NS}
	c.Inv = r.stamp()
	out, err := be.List(r.ctx, storage.EventualConsistency, r.tgt.Uni.unversioned(q.T), ten, q.Prefix)
	c.Ret = r.stamp()
	c.Err = errClass(err)
	for _, res := range out {
		it := r.item(res)
		c.Items = append(c.Items, it)
		w.view(it.K).see(it.V, it.U)
	}
	w.calls = append(w.calls, c)
}

func (w *workerState) doListOwner(be storage.Backend, h int, key, uid string) {
	r := w.r
	id := r.tgt.Uni.pbID(key, "v1", uid)
	c := Call{G: w.g, Op: "listowner", K: key, PO: r.ownerStr(id), H: h}
	c.Inv = r.stamp()
	out, err := be.ListByOwner(r.ctx, id)
	c.Ret = r.stamp()
	c.Err = errClass(err)
	for _, res := range out {
		c.Items = append(c.Items, r.item(res))
	}
	w.calls = append(w.calls, c)
}

func (w *workerState) exec(op OpProg) {
	r := w.r
	yield(op.Yield)
	h := op.H % len(r.tgt.Handles)
	be := r.tgt.Handles[h]
	key := KeyOf(op.Key)
	v := w.view(key)
	switch op.Op {
	case "write":
		pv := w.resolveVer(v, op.Ver, op.Pick)
		pu := w.resolveUid(v, op.Uid, op.Pick)
		w.doWrite(be, h, key, pv, pu, op.GV2, w.ownerID(op.Owner))
	case "delete":
		pv := w.resolveVer(v, op.Ver, op.Pick)
		pu := w.resolveUid(v, op.Uid, op.Pick)
		w.doDelete(be, h, key, pv, pu)
	case "read":
		uf := ""
		if op.UidF {
			uf = w.resolveUid(v, op.Uid, op.Pick)
		}
		w.doRead(be, h, key, uf, op.Strong, op.GV2)
	case "rmw":
		// the read-modify-write cycle of the resource service: read, then write back presenting what was read
		got := w.doRead(be, h, key, "", op.Strong, false)
		yield(op.Gap)
		if got != nil {
			w.doWrite(be, h, key, got.V, got.U, op.GV2, w.ownerID(op.Owner))
		} else {
			w.doWrite(be, h, key, "", w.freshUid(), op.GV2, w.ownerID(op.Owner))
		}
	case "list":
		w.doList(be, h, QueryOf(op.Q))
	case "listowner":
		w.doListOwner(be, h, key, w.resolveUid(v, op.Uid, op.Pick))
	}
}

func (r *runner) worker(g int, ops []OpProg, bar *barrier, wg *sync.WaitGroup) {
	defer wg.Done()
	w := &workerState{r: r, g: g, views: map[string]*view{}}
	defer func() { r.addCalls(w.calls) }()
	defer bar.leave()
	defer r.guard(fmt.Sprintf("worker %d", g))
	i := 0
	for round := 0; round < r.prog.Rounds; round++ {
		bar.wait()
		for i < len(ops) && ops[i].Round <= round {
			w.exec(ops[i])
			i++
		}
	}
}

// waitFor sleeps until the stamp counter reached n or the workers are done.
func (r *runner) waitFor(n int64) {
	r.clockWaiters.Add(1)
	r.clockMu.Lock()
	for r.clock.Load() < n && !r.workersDone.Load() {
		r.clockCond.Wait()
	}
	r.clockMu.Unlock()
	r.clockWaiters.Add(-1)
}

func (r *runner) watcher(i int, wp WatcherProg, wg *sync.WaitGroup) {
	defer wg.Done()
	g := GWatcher0 + i
	ws := &workerState{r: r, g: g, views: map[string]*view{}}
	var sessions []Session
	defer func() {
		r.addCalls(ws.calls)
		r.mu.Lock()
		r.sessions = append(r.sessions, sessions...)
		r.mu.Unlock()
	}()
	defer r.guard(fmt.Sprintf("watcher %d", i))
	q := QueryOf(wp.Q)
	sentinel := q.sentinelKey(i)
	ten := &pbresource.Tenancy{Partition: q.Part, Namespace: q.NS}
	r.waitFor(wp.StartAt)
	var pendingClose storage.Watch
	defer func() {
		if pendingClose != nil {
			pendingClose.Close()
		}
	}()
	for sess := 0; sess < 8; sess++ {
		yield(wp.Yield)
		s := Session{W: i, Q: q, Sentinel: sentinel}
		if r.tgt.SerializeSubscribe {
			r.gate.RLock()
		}
		s.Inv = r.stamp()
		w, err := r.tgt.Watch.WatchList(r.ctx, r.tgt.Uni.unversioned(q.T), ten, q.Prefix)
		s.Ret = r.stamp()
		if r.tgt.SerializeSubscribe {
			r.gate.RUnlock()
		}
		if pendingClose != nil {
			pendingClose.Close()
			pendingClose = nil
		}
		if err != nil {
			s.End = "error:" + err.Error()
			s.EndAt = r.stamp()
			sessions = append(sessions, s)
			return
		}
		limit := -1
		if sess < len(wp.Limits) {
			limit = wp.Limits[sess]
		}
		live, n := 0, 0
		sawEOS, sawSentinel := false, false
		for {
			ctx, cancel := context.WithTimeout(r.ctx, r.tgt.WatchTimeout)
			ev, err := w.Next(ctx)
			cancel()
			at := r.stamp()
			if err != nil {
				switch {
				case errors.Is(err, storage.ErrWatchClosed):
					s.End = "closed"
				case errors.Is(err, context.DeadlineExceeded):
					s.End = "timeout"
				default:
					s.End = "error:" + err.Error()
				}
				s.EndAt = at
				break
			}
			var res *pbresource.Resource
			e := Ev{At: at}
			switch {
			case ev.GetUpsert() != nil:
				e.T, res = "u", ev.GetUpsert().GetResource()
			case ev.GetDelete() != nil:
				e.T, res = "d", ev.GetDelete().GetResource()
			case ev.GetEndOfSnapshot() != nil:
				e.T = "e"
				sawEOS = true
			default:
				e.T = "?"
			}
			if res != nil {
				it := r.item(res)
				e.K, e.V, e.U, e.O = it.K, it.V, it.U, it.O
				n++
				if sawEOS {
					live++
				}
				if e.T == "u" && e.K == sentinel {
					sawSentinel = true
				}
			}
			s.Evs = append(s.Evs, e)
			if res != nil && wp.ReadEvery > 0 && n%wp.ReadEvery == 0 {
				// "Read will never return data that is older than the most recent event you received"
				ws.doRead(r.tgt.Watch, 0, e.K, "", wp.Strong, false)
				if res.GetOwner() != nil {
					ws.doListOwner(r.tgt.Watch, 0, r.tgt.Uni.keyOfID(res.GetOwner()), res.GetOwner().GetUid())
				}
			}
			if sawEOS && sawSentinel {
				s.End = "sentinel"
				s.EndAt = r.stamp()
				break
			}
			if limit >= 0 && sawEOS && live >= limit {
				s.End = "limit"
				s.EndAt = r.stamp()
				break
			}
		}
		sessions = append(sessions, s)
		if wp.LazyClose && (s.End == "closed" || s.End == "limit") {
			pendingClose = w
		} else {
			w.Close()
		}
		if s.End != "closed" && s.End != "limit" {
			return
		}
	}
}

func (r *runner) restorer(rp RestoreProg, wg *sync.WaitGroup) {
	defer wg.Done()
	defer r.guard("restorer")
	r.waitFor(rp.SnapAt)
	c := Call{G: GRestorer, Op: "snapshot"}
	c.Inv = r.stamp()
	next, err := r.tgt.Snapshot()
	c.Ret = r.stamp()
	c.Err = errClass(err)
	var items []*pbresource.Resource
	if err == nil {
		for res := next(); res != nil; res = next() {
			items = append(items, res)
			if r.tgt.Uni.owns(res.GetId()) {
				c.Items = append(c.Items, r.item(res))
			}
		}
	}
	r.addCalls([]Call{c})
	if err != nil {
		return
	}
	r.waitFor(rp.RestoreAt)
	rc := Call{G: GRestorer, Op: "restore", Items: c.Items}
	r.gate.Lock()
	rc.Inv = r.stamp()
	err = r.tgt.Restore(items)
	rc.Ret = r.stamp()
	if err == nil {
		r.epoch = 1
	}
	r.gate.Unlock()
	rc.Err = errClass(err)
	r.addCalls([]Call{rc})
	if err == nil {
		r.mu.Lock()
		r.hasRest, r.rinv, r.rret = true, rc.Inv, rc.Ret
		r.mu.Unlock()
	}
}

// Run executes the program with real goroutines and returns the recorded history. All goroutines it started
// have exited when it returns. GOMAXPROCS is set for the duration of the call.
func Run(ctx context.Context, tgt *Target, p *Prog) *History {
	if tgt.WatchTimeout == 0 {
		tgt.WatchTimeout = 120 * time.Second
	}
	prev := runtime.GOMAXPROCS(p.Procs)
	defer runtime.GOMAXPROCS(prev)
	r := &runner{tgt: tgt, prog: p, ctx: ctx}
	r.clockCond = sync.NewCond(&r.clockMu)

	var wgWorkers, wgWatchers, wgRestore sync.WaitGroup
	for i, wp := range p.Watchers {
		wgWatchers.Add(1)
		go r.watcher(i, wp, &wgWatchers)
	}
	if p.Restore != nil && tgt.Snapshot != nil && tgt.Restore != nil {
		wgRestore.Add(1)
		go r.restorer(*p.Restore, &wgRestore)
	}
	bar := newBarrier(len(p.Workers))
	for g, ops := range p.Workers {
		wgWorkers.Add(1)
		go r.worker(g, ops, bar, &wgWorkers)
	}
	wgWorkers.Wait()
	r.workersDone.Store(true)
	r.wake()
	wgRestore.Wait()

	// epilogue by the main goroutine: final strong reads of every key, then one sentinel per watcher. Every
	// commit of the case precedes the sentinel's commit, so a watcher that has received its sentinel has
	// received everything (events of one subject are delivered in publication order).
	func() {
		defer r.guard("main")
		m := &workerState{r: r, g: GMain, views: map[string]*view{}}
		for k := 0; k < NumKeys; k++ {
			m.doRead(tgt.Watch, 0, KeyOf(k), "", true, false)
		}
		for i, wp := range p.Watchers {
			m.doWrite(tgt.Watch, 0, QueryOf(wp.Q).sentinelKey(i), "", m.freshUid(), false, nil)
		}
		r.addCalls(m.calls)
	}()
	wgWatchers.Wait()

	h := &History{Kind: "history", Calls: r.calls, Sessions: r.sessions, HasRestore: r.hasRest, RInv: r.rinv, RRet: r.rret,
		Bubble: tgt.Bubble, Panics: r.panics}
	sort.SliceStable(h.Calls, func(i, j int) bool { return h.Calls[i].Inv < h.Calls[j].Inv })
	sort.SliceStable(h.Sessions, func(i, j int) bool { return h.Sessions[i].Inv < h.Sessions[j].Inv })
	return h
}
