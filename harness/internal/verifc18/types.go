//go:build verif

// Package verifc18 is the engine of property C18 ("Resource store: version CAS, stable UIDs, ordered watches").
// It is shared by the targets of the check — internal/storage/inmem (the in-memory backend, with snapshot/restore)
// and internal/storage/raft (leader + follower with forwarding) — which cannot share test code in any other way.
// It is injected by build overlay only (never stored in /repo).
//
// Structure:
//
//	GenProg   rapid generator of a PROGRAM: per-worker op lists with symbolic choices (which version / uid to
//	          present), watcher programs, an optional snapshot/restore, GOMAXPROCS, yield points.
//	Run       executes a program against a storage.Backend with REAL goroutines and records a HISTORY: every call
//	          with invoke/return stamps from one global atomic counter, arguments and results; every watch session
//	          with every event received and its receive stamp.
//	Check     the oracle: a deterministic function of the recorded history only (never of the store): chain
//	          reconstruction (H1/H2), watch sessions (H3), read-after-event (H4), porcupine (H5).
//
// The schedule comes from the Go runtime, so a failure may not reproduce from the seed: the replay file therefore
// contains the program AND the recorded history.
package verifc18

import (
	"fmt"
	"strings"

	"github.com/hashicorp/consul/internal/storage"
	"github.com/hashicorp/consul/proto-public/pbresource"
)

// ---------------------------------------------------------------------------------------------------------------
// universe: 2 types x 2 tenancies x 3 names = 12 keys (+ one sentinel key per watcher)

const verifGroup = "verifc18"

var (
	uniNames = []string{"a", "ab", "b"} // "a" is a prefix of "ab"
	uniNS    = []string{"n0", "n1"}     // both in partition p0
	uniTypes = []string{"A", "B"}       // A exists in GroupVersion v1 and v2 (equivalent by contract), B in v1
)

const uniPartition = "p0"

// NumKeys is the size of the ordinary key universe.
const NumKeys = 12

// KeyOf returns the canonical key string of universe key i: "<type>|<namespace>|<name>".
func KeyOf(i int) string {
	return uniTypes[i/6] + "|" + uniNS[(i/3)%2] + "|" + uniNames[i%3]
}

func splitKey(k string) (typ, ns, name string) {
	p := strings.SplitN(k, "|", 3)
	if len(p) != 3 {
		return "", "", ""
	}
	return p[0], p[1], p[2]
}

// Universe maps canonical keys to protobuf IDs. KindSuffix isolates cases that share one backend (raft target).
type Universe struct{ KindSuffix string }

func (u Universe) pbType(typ, gv string) *pbresource.Type {
	if gv == "" {
		gv = "v1"
	}
	return &pbresource.Type{Group: verifGroup, GroupVersion: gv, Kind: strings.ToLower(typ) + u.KindSuffix}
}

func (u Universe) unversioned(typ string) storage.UnversionedType {
	return storage.UnversionedType{Group: verifGroup, Kind: strings.ToLower(typ) + u.KindSuffix}
}

func (u Universe) pbID(key, gv, uid string) *pbresource.ID {
	typ, ns, name := splitKey(key)
	return &pbresource.ID{
		Type:    u.pbType(typ, gv),
		Tenancy: &pbresource.Tenancy{Partition: uniPartition, Namespace: ns},
		Name:    name,
		Uid:     uid,
	}
}

// owns reports whether the id belongs to this universe (a shared backend also holds other cases' resources).
func (u Universe) owns(id *pbresource.ID) bool {
	if id == nil || id.Type == nil || id.Tenancy == nil || id.Type.Group != verifGroup {
		return false
	}
	return id.Type.Kind == "a"+u.KindSuffix || id.Type.Kind == "b"+u.KindSuffix
}

func (u Universe) keyOfID(id *pbresource.ID) string {
	if id == nil || id.Type == nil || id.Tenancy == nil {
		return "?"
	}
	kind := strings.TrimSuffix(id.Type.Kind, u.KindSuffix)
	return strings.ToUpper(kind) + "|" + id.Tenancy.Namespace + "|" + id.Name
}

// QuerySpec is a List / WatchList filter.
type QuerySpec struct {
	T      string `json:"t"`  // "A" | "B"
	Part   string `json:"p"`  // "p0" | "*"
	NS     string `json:"ns"` // "n0" | "n1" | "*"
	Prefix string `json:"pre,omitempty"`
}

var queryTen = [][2]string{{"p0", "n0"}, {"p0", "n1"}, {"p0", "*"}, {"*", "*"}, {"*", "n0"}}
var queryPre = []string{"", "a", "ab"}

// NumQueries is the number of distinct query shapes.
const NumQueries = 2 * 5 * 3

// QueryOf decodes a query index.
func QueryOf(i int) QuerySpec {
	i = ((i % NumQueries) + NumQueries) % NumQueries
	t := uniTypes[i/15]
	ten := queryTen[(i/3)%5]
	return QuerySpec{T: t, Part: ten[0], NS: ten[1], Prefix: queryPre[i%3]}
}

// Matches reports whether the canonical key is selected by the query.
func (q QuerySpec) Matches(key string) bool {
	typ, ns, name := splitKey(key)
	if typ != q.T {
		return false
	}
	if q.NS != "*" && q.NS != ns {
		return false
	}
	return strings.HasPrefix(name, q.Prefix)
}

func (q QuerySpec) String() string { return fmt.Sprintf("%s[%s/%s]%q", q.T, q.Part, q.NS, q.Prefix) }

// sentinelKey is the key the main goroutine writes last so that watcher w knows it has seen everything.
func (q QuerySpec) sentinelKey(w int) string {
	ns := q.NS
	if ns == "*" {
		ns = "n0"
	}
	return fmt.Sprintf("%s|%s|%s~s%d", q.T, ns, q.Prefix, w)
}

// ---------------------------------------------------------------------------------------------------------------
// program (what rapid generates; re-runnable)

// Symbolic choices, resolved at run time against what the worker has seen so far.
const (
	VerEmpty = 0 // "" (create)
	VerLast  = 1 // the version this worker saw last for the key ("" if it believes the key is absent)
	VerStale = 2 // an older version this worker has seen
	VerBogus = 3 // a string no backend ever issues

	UidCurrent = 0 // the uid this worker saw last for the key
	UidNew     = 1 // a fresh uid
	UidStale   = 2 // a uid of an earlier lifetime this worker has seen
	UidEmpty   = 3 // ""
)

// OpProg is one step of a worker program.
type OpProg struct {
	Round  int    `json:"r"`
	Op     string `json:"op"` // write | delete | read | rmw | list | listowner
	Key    int    `json:"k"`
	Ver    int    `json:"ver,omitempty"`
	Uid    int    `json:"uid,omitempty"`
	Pick   int    `json:"pick,omitempty"` // which stale entry
	GV2    bool   `json:"gv2,omitempty"`  // use GroupVersion v2 (type A only)
	Owner  int    `json:"own,omitempty"`  // 0 = none, else 1+key index of the owner
	Strong bool   `json:"strong,omitempty"`
	UidF   bool   `json:"uidf,omitempty"` // read: filter by the last seen uid
	Q      int    `json:"q,omitempty"`
	H      int    `json:"h,omitempty"` // backend handle
	Yield  int    `json:"y,omitempty"` // runtime.Gosched() calls before the op
	Gap    int    `json:"gap,omitempty"` // rmw: runtime.Gosched() calls between the read and the write
}

// WatcherProg is one watcher goroutine.
type WatcherProg struct {
	Q         int   `json:"q"`
	StartAt   int64 `json:"start"`          // subscribe once the global stamp counter reached this value
	Limits    []int `json:"limits"`         // session i is closed after Limits[i] live events and a new one is opened
	ReadEvery int   `json:"read,omitempty"` // follow-up Read after every n-th event (0 = never)
	Strong    bool  `json:"strong,omitempty"`
	LazyClose bool  `json:"lazy,omitempty"` // close the previous watch only after the next one is open
	Yield     int   `json:"y,omitempty"`
}

// RestoreProg takes a snapshot at SnapAt and restores it at RestoreAt (global stamp values).
type RestoreProg struct {
	SnapAt    int64 `json:"snap"`
	RestoreAt int64 `json:"restore"`
}

// Prog is a complete case.
type Prog struct {
	Kind     string        `json:"kind"` // "program"
	Backend  string        `json:"backend"`
	Procs    int           `json:"procs"`
	Rounds   int           `json:"rounds"`
	Hot      int           `json:"hot"`
	Workers  [][]OpProg    `json:"workers"`
	Watchers []WatcherProg `json:"watchers"`
	Restore  *RestoreProg  `json:"restore,omitempty"`
}

// ---------------------------------------------------------------------------------------------------------------
// history (what Run records; what Check judges)

// Item is one resource as observed: key, version, uid, owner.
type Item struct {
	K string `json:"k"`
	V string `json:"v"`
	U string `json:"u"`
	O string `json:"o,omitempty"` // owner as "key#uid"
}

// Goroutine ids in Call.G.
const (
	GMain     = -1
	GRestorer = -2
	GWatcher0 = 100
)

// Call is one recorded call.
type Call struct {
	G      int        `json:"g"`
	Op     string     `json:"op"` // write | delete | read | list | listowner | snapshot | restore
	K      string     `json:"k,omitempty"`
	Inv    int64      `json:"inv"`
	Ret    int64      `json:"ret"`
	PV     string     `json:"pv,omitempty"` // presented version
	PU     string     `json:"pu,omitempty"` // presented uid (read: uid filter)
	GV     string     `json:"gv,omitempty"`
	PO     string     `json:"po,omitempty"` // presented owner "key#uid" (write) / queried owner (listowner)
	Strong bool       `json:"strong,omitempty"`
	Q      *QuerySpec `json:"q,omitempty"`
	H      int        `json:"h,omitempty"`
	Ep     int        `json:"ep,omitempty"` // epoch (0 before restore, 1 after) — writes and deletes only
	Err    string     `json:"err,omitempty"`
	R      *Item      `json:"res,omitempty"`
	Items  []Item     `json:"items,omitempty"`
}

// Ev is one watch event as received.
type Ev struct {
	T  string `json:"t"` // u(psert) | d(elete) | e(nd of snapshot)
	K  string `json:"k,omitempty"`
	V  string `json:"v,omitempty"`
	U  string `json:"u,omitempty"`
	O  string `json:"o,omitempty"`
	At int64  `json:"at"`
}

// Session is one WatchList subscription of one watcher.
type Session struct {
	W        int       `json:"w"`
	Q        QuerySpec `json:"q"`
	Inv      int64     `json:"inv"`
	Ret      int64     `json:"ret"`
	Evs      []Ev      `json:"evs"`
	End      string    `json:"end"` // sentinel | closed | limit | timeout | error:<..>
	EndAt    int64     `json:"end_at"`
	Sentinel string    `json:"sentinel"`
}

// History is everything recorded in one execution.
type History struct {
	Kind       string    `json:"kind"` // "history"
	Calls      []Call    `json:"calls"`
	Sessions   []Session `json:"sessions"`
	HasRestore bool      `json:"has_restore,omitempty"`
	RInv       int64     `json:"rinv,omitempty"`
	RRet       int64     `json:"rret,omitempty"`
	Bubble     bool      `json:"bubble,omitempty"` // executed under testing/synctest: a watch timeout is a proof of quiescence
	Panics     []string  `json:"panics,omitempty"`
}

// Problem is one oracle verdict.
type Problem struct {
	Key    string // root-cause signature
	Detail string
}
