//go:build verif

package verifc18

// Test-side plumbing shared by the targets: judging a history through verifkit, the stall watchdog with the
// lock-order deadlock proof, labels.

import (
	"encoding/json"
	"fmt"
	"os"
	"path/filepath"
	"regexp"
	"runtime"
	"strings"
	"sync/atomic"
	"time"

	"github.com/hashicorp/consul/internal/verifkit"
)

// KeyDeadlock is the signature of the Restoration.Commit / WatchList lock-order deadlock.
const KeyDeadlock = "C18/restore-commit-vs-watchlist-lock-order-deadlock"

// Progress is odd while a case is executing; Current is the program being executed (for the watchdog's replay file).
var (
	Progress atomic.Int64
	Current  atomic.Pointer[Prog]
	// ProofDisabled is set once a proven deadlock has been reported and its goroutines were abandoned: from then on
	// a stack dump of the process always contains the cycle, so it proves nothing about later cases.
	ProofDisabled atomic.Bool
)

var goroutineRe = regexp.MustCompile(`(?m)^goroutine \d+ `)

// DeadlockProof looks for the ABBA cycle in one consistent (stop-the-world) dump of all goroutine stacks:
//
//	A: Restoration.Commit -> EventPublisher.RefreshTopic -> RWMutex.Lock        (holds Store.mu, wants the publisher lock)
//	B: EventPublisher.Subscribe -> Store.watchSnapshot -> Store.txn -> RLock    (holds the publisher lock, wants Store.mu)
//
// A is past `r.s.mu.Lock()` (it is inside RefreshTopic), so it holds Store.mu; B is inside the snapshot handler, which
// Subscribe calls with the publisher lock held. Both are blocked: neither can ever proceed. This is a proof from the
// program state, not a timing verdict.
func DeadlockProof() (bool, string) {
	buf := make([]byte, 16<<20)
	n := runtime.Stack(buf, true)
	dump := string(buf[:n])
	idx := goroutineRe.FindAllStringIndex(dump, -1)
	var a, b string
	for i, loc := range idx {
		end := len(dump)
		if i+1 < len(idx) {
			end = idx[i+1][0]
		}
		g := dump[loc[0]:end]
		nl := strings.IndexByte(g, '\n')
		if nl < 0 {
			continue
		}
		head := g[:nl]
		blocked := strings.Contains(head, "Lock") || strings.Contains(head, "semacquire")
		if blocked && strings.Contains(g, "inmem.(*Restoration).Commit") && strings.Contains(g, "stream.(*EventPublisher).RefreshTopic") {
			a = g
		}
		if blocked && strings.Contains(g, "inmem.(*Store).watchSnapshot") && strings.Contains(g, "inmem.(*Store).txn") {
			b = g
		}
	}
	if a != "" && b != "" {
		return true, "goroutine A (holds Store.mu, waits for the publisher lock):\n" + a + "\ngoroutine B (holds the publisher lock, waits for Store.mu):\n" + b
	}
	return false, dump
}

// WriteReplay writes a replay file outside verifkit's Violation path (used by the watchdog, which cannot Fatalf).
func WriteReplay(c *verifkit.Case, key, detail string) string {
	dir := os.Getenv("VERIF_REPLAY_DIR")
	if dir == "" {
		dir = os.TempDir()
	}
	_ = os.MkdirAll(dir, 0o755)
	path := filepath.Join(dir, fmt.Sprintf("C18-%s-s%s.json", strings.ReplaceAll(strings.TrimPrefix(key, "C18/"), "/", "_"), os.Getenv("VERIF_SHARD")))
	rp := verifkit.Replay{Property: "C18", Key: key, Detail: detail}
	for _, op := range c.Ops() {
		b, _ := json.Marshal(op)
		rp.Ops = append(rp.Ops, b)
	}
	b, _ := json.MarshalIndent(rp, "", " ")
	_ = os.WriteFile(path, b, 0o644)
	return path
}

// Watchdog (real time, outside any bubble). It never decides a property verdict by time: a stall becomes a violation
// only when DeadlockProof succeeds; otherwise the process exits 3 (the driver reports "inconclusive").
func Watchdog(rec *verifkit.Rec) (stop func()) {
	done := make(chan struct{})
	limit := time.Duration(verifkit.EnvInt("VERIF_C18_STALL_S", 180)) * time.Second
	go func() {
		last := Progress.Load()
		since := time.Now()
		tick := time.NewTicker(500 * time.Millisecond)
		defer tick.Stop()
		for {
			select {
			case <-done:
				return
			case <-tick.C:
			}
			cur := Progress.Load()
			if cur != last || cur%2 == 0 {
				last, since = cur, time.Now()
				continue
			}
			if time.Since(since) < 3*time.Second {
				continue
			}
			// only goroutines of the engine's own case count (an earlier, already reported deadlock of the dedicated
			// restore-vs-watch test leaves its goroutines behind for good)
			if ok, proof := DeadlockProof(); ok && !ProofDisabled.Load() &&
				strings.Contains(proof, "verifc18.(*runner).restorer") && strings.Contains(proof, "verifc18.(*runner).watcher") {
				c := rec.NewCase()
				if p := Current.Load(); p != nil {
					c.Op(p)
				}
				path := WriteReplay(c, KeyDeadlock, proof)
				fmt.Printf("\nVERIF-VIOLATION property=C18 key=%s replay=%s\n%s\n", KeyDeadlock, path, proof)
				rec.Flush()
				os.Exit(1)
			}
			if time.Since(since) > limit {
				_, dump := DeadlockProof()
				fmt.Printf("\nC18 harness: case stalled for %v without a deadlock proof (inconclusive)\n%s\n", limit, dump)
				os.Exit(3)
			}
		}
	}()
	return func() { close(done) }
}

func bucket(n int) string {
	switch {
	case n == 0:
		return "0"
	case n <= 2:
		return "1-2"
	case n <= 9:
		return "3-9"
	}
	return "10+"
}

// Judge applies the oracle to a history and reports through the case. Returns the oracle's statistics.
func Judge(f verifkit.F, rec *verifkit.Rec, c *verifkit.Case, prog *Prog, h *History, o CheckOpts) Stats {
	if o.Tolerate == nil {
		o.Tolerate = rec.IsKnown
	}
	probs, st := Check(h, o)
	pre := ""
	if prog.Backend != "inmem" {
		pre = prog.Backend + ":"
		c.Label("backend=" + prog.Backend)
	}
	c.Labelf("%sGOMAXPROCS=%d", pre, prog.Procs)
	c.Labelf("%soverlapping-CAS-pairs=%s", pre, bucket(st.OverlapCAS))
	c.Labelf("%srestore=%v", pre, h.HasRestore)
	if st.OverlapCAS > 0 {
		c.Labelf("%soverlapping-CAS@GOMAXPROCS=%d", pre, prog.Procs)
	}
	if st.OverlapCASSuccess > 0 {
		c.Label(pre + "overlapping-CAS-with-a-winner")
	}
	if st.SubscribeInFlight > 0 {
		c.Label(pre + "watch-opened-while-write-in-flight")
	}
	if st.Replays > 0 {
		c.Label(pre + "replay-at-subscribe(documented race)")
	}
	if st.SessionsClosed > 0 {
		c.Label(pre + "watch-closed-by-restore")
	}
	if st.AmbiguousOrder > 0 {
		c.Label(pre + "lifetime-order-undetermined")
	}
	c.Labelf("%smax-chain=%s", pre, bucket(st.MaxChain))
	x := strings.ReplaceAll(pre, ":", "_")
	rec.AddExtraInt(x+"overlapping_cas_pairs", int64(st.OverlapCAS))
	rec.AddExtraInt(x+"overlapping_cas_pairs_with_winner", int64(st.OverlapCASSuccess))
	rec.AddExtraInt(x+"subscribes_while_write_in_flight", int64(st.SubscribeInFlight))
	rec.AddExtraInt(x+"watch_sessions", int64(st.Sessions))
	rec.AddExtraInt(x+"watch_live_events", int64(st.LiveEvents))
	rec.AddExtraInt(x+"watch_listing_items", int64(st.ListingItems))
	rec.AddExtraInt(x+"replays_at_subscribe", int64(st.Replays))
	rec.AddExtraInt(x+"lifetimes", int64(st.Lifetimes))
	rec.AddExtraInt(x+"cas_successes", int64(st.Successes))
	rec.AddExtraInt(x+"cas_failures", int64(st.CASFailures))
	rec.AddExtraInt(x+"uid_failures", int64(st.UidFailures))
	rec.AddExtraInt(x+"follow_up_reads_after_event", int64(st.FollowUpReads))
	rec.AddExtraInt(x+"porcupine_ops", int64(st.PorcupineOps))
	rec.AddExtraInt(x+"lifetime_pairs_order_undetermined", int64(st.AmbiguousOrder))
	rec.AddExtraInt(x+"calls_recorded", int64(len(h.Calls)))
	// NT: >= 2 goroutines presented the same version of one resource with overlapping call intervals, or a watch was
	// opened while a write was in flight
	if st.OverlapCAS > 0 || st.SubscribeInFlight > 0 {
		c.NonTrivial()
	}
	histAdded := false
	for _, p := range probs {
		if strings.HasPrefix(p.Key, "C18/harness-") {
			f.Fatalf("harness (inconclusive, not a verdict): %s: %s", p.Key, p.Detail)
		}
		if !rec.IsKnown(p.Key) && !histAdded {
			c.Op(h) // the recorded history IS the evidence: it goes into the replay file
			histAdded = true
		}
		c.Violation(f, p.Key, "%s", p.Detail)
	}
	return st
}
