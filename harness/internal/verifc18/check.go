//go:build verif

package verifc18

import (
	"fmt"
	"sort"
	"strings"

	"github.com/anishathalye/porcupine"
)

// CheckOpts says which parts of the contract the target promises.
type CheckOpts struct {
	// EventualAssertable[h]: eventual reads / lists through handle h are served by the store that also applied the
	// writes (false for the raft test follower, whose replication order is an artefact of the upstream test helper).
	EventualAssertable []bool
	// Tolerate lists finding keys whose occurrences are dropped from the history so checking goes on behind them.
	Tolerate func(key string) bool
}

// Stats is what the oracle measured on the history (labels, non-triviality).
type Stats struct {
	OverlapCAS        int // pairs of writes/deletes of different goroutines presenting the same version of one key with overlapping call intervals
	OverlapCASSuccess int // ... of which one succeeded
	SubscribeInFlight int // WatchList calls overlapping a write/delete call
	Replays           int // keys whose first live event was already reflected in the listing (the documented duplicate-at-subscribe race)
	Sessions          int
	SessionsClosed    int
	LiveEvents        int
	ListingItems      int
	Lifetimes         int
	MaxChain          int
	AmbiguousOrder    int // pairs of lifetimes of one key whose order the history does not determine (cross-lifetime checks skipped)
	StrongReads       int
	EventualReads     int
	FollowUpReads     int
	CASFailures       int
	UidFailures       int
	Successes         int
	PorcupineOps      int
	Foreign           int // events tolerated under a known finding
}

type elem struct {
	kind  byte // 'u' | 'd'
	ver   string
	owner string
	life  *life
	pos   int
	call  *Call // producing write (nil for the root of an epoch and for delete elements)
}

type life struct {
	key      string
	ep       int
	uid      string
	idx      int // index within the chain
	elems    []*elem
	root     bool
	ended    bool
	create   [2]int64 // inv, ret of the creating call (the restore for a root)
	delCands []*Call
	minRet   int64 // min Ret over the writes of the lifetime
	maxInv   int64 // max Inv over the writes of the lifetime
}

func (l *life) last() *elem {
	for i := len(l.elems) - 1; i >= 0; i-- {
		if l.elems[i].kind == 'u' {
			return l.elems[i]
		}
	}
	return nil
}

type chain struct {
	key      string
	ep       int
	lives    []*life
	byVer    map[string]*elem // upsert elements by version
	delByVer map[string]*elem // delete elements by the version that was deleted
}

type checker struct {
	h     *History
	o     CheckOpts
	probs []Problem
	seen  map[string]bool
	st    Stats
	// per key
	keys     []string
	calls    map[string][]*Call      // write/delete/read calls per key
	chains   map[string][2]*chain    // per key, per epoch
	producer map[string]map[string]*Call // key -> version -> producing write
	rootItem map[string]*Item        // key -> snapshot item restored (epoch 1 root)
	foreign  map[*Ev]bool
}

func (c *checker) bad(key, format string, a ...any) {
	d := fmt.Sprintf(format, a...)
	if c.seen[key+"\x00"+d] {
		return
	}
	c.seen[key+"\x00"+d] = true
	c.probs = append(c.probs, Problem{Key: key, Detail: d})
}

func (c *checker) nEpochs() int {
	if c.h.HasRestore {
		return 2
	}
	return 1
}

// epochOf classifies an observation interval: 0 before the restore, 1 after, -1 overlapping it.
func (c *checker) epochOf(inv, ret int64) int {
	if !c.h.HasRestore || ret < c.h.RInv {
		return 0
	}
	if inv > c.h.RRet {
		return 1
	}
	return -1
}

func (c *checker) assertable(h int) bool {
	if h < len(c.o.EventualAssertable) {
		return c.o.EventualAssertable[h]
	}
	return true
}

// Check judges a recorded history. Deterministic: a function of the history only.
func Check(h *History, o CheckOpts) ([]Problem, Stats) {
	c := &checker{h: h, o: o, seen: map[string]bool{}, calls: map[string][]*Call{}, chains: map[string][2]*chain{},
		producer: map[string]map[string]*Call{}, rootItem: map[string]*Item{}, foreign: map[*Ev]bool{}}
	for _, p := range h.Panics {
		c.bad("C18/panic", "%s", p)
	}
	c.index()
	c.buildChains()
	c.finalState()
	c.linearizable()
	c.weakReads()
	c.sessions()
	c.measure()
	sort.SliceStable(c.probs, func(i, j int) bool {
		pi, pj := keyRank(c.probs[i].Key), keyRank(c.probs[j].Key)
		if pi != pj {
			return pi < pj
		}
		return c.probs[i].Key < c.probs[j].Key
	})
	return c.probs, c.st
}

// keyPriority: the most specific verdicts first (the first problem of a history becomes its signature); the
// catch-all oracles (final state, linearizability) last.
var keyPriority = []string{
	"C18/panic", "C18/unexpected-error",
	"C18/version-issued-twice", "C18/write-returned-empty-version", "C18/uid-changed-by-write",
	"C18/cas-two-successes-on-one-version", "C18/uid-changed-within-lifetime", "C18/cas-success-on-unknown-version", "C18/two-live-lifetimes",
	"C18/read-ignored-uid", "C18/read-phantom-version", "C18/read-from-the-future", "C18/uid-differs-from-written", "C18/owner-differs-from-written",
	"C18/list-duplicate", "C18/list-outside-query", "C18/listbyowner-wrong-owner",
	"C18/watch-error", "C18/watch-closed-without-restore", "C18/watch-survived-restore", "C18/watch-event-of-other-epoch",
	"C18/watch-after-restore-replays-pre-restore-event",
	"C18/watch-phantom-event", "C18/watch-delete-event-without-delete", "C18/watch-event-differs-from-written",
	"C18/watch-second-end-of-snapshot", "C18/watch-unknown-event", "C18/watch-event-outside-query", "C18/watch-delete-in-listing", "C18/watch-listing-duplicate",
	"C18/watch-event-repeat-or-reorder", "C18/watch-event-gap", "C18/watch-event-lost", "C18/watch-final-view-mismatch",
	"C18/read-older-than-received-event", "C18/listbyowner-older-than-received-event", "C18/monotonic-read-regress",
	"C18/final-state-mismatch", "C18/not-linearizable",
}

func keyRank(k string) int {
	for i, p := range keyPriority {
		if p == k {
			return i
		}
	}
	return len(keyPriority)
}

func (c *checker) index() {
	ks := map[string]bool{}
	for i := range c.h.Calls {
		cl := &c.h.Calls[i]
		if strings.HasPrefix(cl.Err, "other:") {
			c.bad("C18/unexpected-error", "%s on %s returned %s", cl.Op, cl.K, cl.Err)
			continue
		}
		switch cl.Op {
		case "write", "delete", "read":
			ks[cl.K] = true
			c.calls[cl.K] = append(c.calls[cl.K], cl)
		case "restore":
			for j := range cl.Items {
				it := &cl.Items[j]
				ks[it.K] = true
				c.rootItem[it.K] = it
			}
		}
		for _, it := range cl.Items {
			ks[it.K] = true
		}
	}
	for i := range c.h.Sessions {
		for _, e := range c.h.Sessions[i].Evs {
			if e.K != "" {
				ks[e.K] = true
			}
		}
	}
	for k := range ks {
		c.keys = append(c.keys, k)
	}
	sort.Strings(c.keys)
}

// ---------------------------------------------------------------------------------------------------------------
// H1 / H2: chains

func (c *checker) buildChains() {
	for _, k := range c.keys {
		prod := map[string]*Call{}
		c.producer[k] = prod
		for _, cl := range c.calls[k] {
			if cl.Op == "write" && cl.Err == "" && cl.R != nil {
				if cl.R.V == "" {
					c.bad("C18/write-returned-empty-version", "key %s: successful write returned no version", k)
				}
				if prev := prod[cl.R.V]; prev != nil {
					c.bad("C18/version-issued-twice", "key %s: version %q returned by two successful writes (g%d@%d and g%d@%d)", k, cl.R.V, prev.G, prev.Inv, cl.G, cl.Inv)
				}
				prod[cl.R.V] = cl
				if cl.R.U != cl.PU {
					c.bad("C18/uid-changed-by-write", "key %s: write presented uid %q, stored resource has uid %q", k, cl.PU, cl.R.U)
				}
			}
		}
		var pair [2]*chain
		for ep := 0; ep < c.nEpochs(); ep++ {
			pair[ep] = c.buildChain(k, ep)
		}
		c.chains[k] = pair
	}
}

func (c *checker) buildChain(k string, ep int) *chain {
	ch := &chain{key: k, ep: ep, byVer: map[string]*elem{}, delByVer: map[string]*elem{}}
	succ := map[string][]*Call{} // presented version -> successful writes
	var creates []*Call
	var dels []*Call
	for _, cl := range c.calls[k] {
		if cl.Ep != ep {
			continue
		}
		switch {
		case cl.Op == "write" && cl.Err == "" && cl.R != nil:
			c.st.Successes++
			if cl.PV == "" {
				creates = append(creates, cl)
			} else {
				succ[cl.PV] = append(succ[cl.PV], cl)
			}
		case cl.Op == "write" && cl.Err == "cas":
			c.st.CASFailures++
		case cl.Op == "write" && cl.Err == "uid":
			c.st.UidFailures++
		case cl.Op == "delete" && cl.Err == "":
			dels = append(dels, cl)
		}
	}
	newLife := func(uid string) *life {
		l := &life{key: k, ep: ep, uid: uid, idx: len(ch.lives), minRet: 1 << 62}
		ch.lives = append(ch.lives, l)
		return l
	}
	addUpsert := func(l *life, ver, owner string, cl *Call) {
		e := &elem{kind: 'u', ver: ver, owner: owner, life: l, pos: len(l.elems), call: cl}
		l.elems = append(l.elems, e)
		ch.byVer[ver] = e
		if cl != nil {
			if cl.Ret < l.minRet {
				l.minRet = cl.Ret
			}
			if cl.Inv > l.maxInv {
				l.maxInv = cl.Inv
			}
		}
	}
	if ep == 1 {
		if it := c.rootItem[k]; it != nil {
			l := newLife(it.U)
			l.root = true
			l.create = [2]int64{c.h.RInv, c.h.RRet}
			l.minRet, l.maxInv = c.h.RRet, c.h.RInv
			addUpsert(l, it.V, it.O, nil)
		}
	}
	for _, cl := range creates {
		l := newLife(cl.PU)
		l.create = [2]int64{cl.Inv, cl.Ret}
		addUpsert(l, cl.R.V, cl.R.O, cl)
	}
	used := map[*Call]bool{}
	for _, l := range ch.lives {
		cur := l.elems[0].ver
		for {
			next := succ[cur]
			if len(next) == 0 {
				break
			}
			if len(next) > 1 {
				// H1: CAS mutual exclusion
				var who []string
				for _, n := range next {
					who = append(who, fmt.Sprintf("g%d[%d,%d]->%s", n.G, n.Inv, n.Ret, n.R.V))
				}
				c.bad("C18/cas-two-successes-on-one-version", "key %s epoch %d: version %q was presented by %d successful writes: %s", k, ep, cur, len(next), strings.Join(who, " "))
			}
			n := next[0]
			for _, x := range next {
				used[x] = true
			}
			if n.PU != l.uid {
				// H2: uid constant along a chain
				c.bad("C18/uid-changed-within-lifetime", "key %s epoch %d: write g%d@%d presenting version %q succeeded with uid %q, the lifetime's uid is %q", k, ep, n.G, n.Inv, cur, n.PU, l.uid)
			}
			addUpsert(l, n.R.V, n.R.O, n)
			cur = n.R.V
		}
	}
	for pv, ws := range succ {
		for _, w := range ws {
			if !used[w] {
				c.bad("C18/cas-success-on-unknown-version", "key %s epoch %d: write g%d@%d succeeded presenting version %q which no successful write of this key produced in this epoch", k, ep, w.G, w.Inv, pv)
			}
		}
	}
	alive := 0
	for _, l := range ch.lives {
		last := l.last()
		for _, d := range dels {
			if d.PU == l.uid && d.PV == last.ver {
				l.delCands = append(l.delCands, d)
			}
		}
		if len(l.delCands) > 0 {
			l.ended = true
			e := &elem{kind: 'd', ver: last.ver, life: l, pos: len(l.elems)}
			l.elems = append(l.elems, e)
			ch.delByVer[last.ver] = e
		} else {
			alive++
		}
		if n := len(l.elems); n > c.st.MaxChain {
			c.st.MaxChain = n
		}
	}
	c.st.Lifetimes += len(ch.lives)
	if alive > 1 {
		var who []string
		for _, l := range ch.lives {
			if !l.ended {
				who = append(who, fmt.Sprintf("uid %s created@[%d,%d] last version %s", l.uid, l.create[0], l.create[1], l.last().ver))
			}
		}
		c.bad("C18/two-live-lifetimes", "key %s epoch %d: %d lifetimes were never deleted, so a create succeeded over an existing resource: %s", k, ep, alive, strings.Join(who, "; "))
	}
	for i, x := range ch.lives {
		for _, y := range ch.lives[i+1:] {
			if c.order(x, y) == 0 {
				c.st.AmbiguousOrder++
			}
		}
	}
	return ch
}

// order of two lifetimes of one key and epoch: -1 x before y, +1 y before x, 0 undetermined by the history.
// Lifetimes of one key are disjoint in time. "Definitely before": some write of x returned before some write of y
// was invoked. "Possible": x was deleted by a call invoked before y's create returned.
func (c *checker) order(x, y *life) int {
	if x == y {
		return 0
	}
	if x.root {
		return -1
	}
	if y.root {
		return 1
	}
	defXY := x.minRet < y.maxInv
	defYX := y.minRet < x.maxInv
	possible := func(a, b *life) bool {
		if !a.ended {
			return false
		}
		for _, d := range a.delCands {
			if d.Inv < b.create[1] {
				return true
			}
		}
		return false
	}
	posXY, posYX := possible(x, y), possible(y, x)
	switch {
	case defXY && !defYX:
		return -1
	case defYX && !defXY:
		return 1
	case defXY && defYX:
		return 0 // overlapping lifetimes: reported by the linearizability oracle
	case posXY && !posYX:
		return -1
	case posYX && !posXY:
		return 1
	}
	return 0
}

// cmp compares two chain elements of one key and epoch: -1 a earlier, 0 same, +1 a later, 2 undetermined.
func (c *checker) cmp(a, b *elem) int {
	if a.life == b.life {
		switch {
		case a.pos < b.pos:
			return -1
		case a.pos > b.pos:
			return 1
		}
		return 0
	}
	switch c.order(a.life, b.life) {
	case -1:
		return -1
	case 1:
		return 1
	}
	return 2
}

func (c *checker) lastEpoch() int { return c.nEpochs() - 1 }

func (c *checker) finalState() {
	for i := range c.h.Calls {
		cl := &c.h.Calls[i]
		if cl.G != GMain || cl.Op != "read" {
			continue
		}
		ch := c.chains[cl.K][c.lastEpoch()]
		var alive *life
		for _, l := range ch.lives {
			if !l.ended {
				alive = l
			}
		}
		switch {
		case alive == nil && cl.R != nil:
			if ch.byVer[cl.R.V] == nil {
				c.bad("C18/final-state-mismatch", "key %s: final read returned version %q (uid %s) that no successful write of the final epoch produced", cl.K, cl.R.V, cl.R.U)
			} else {
				c.bad("C18/final-state-mismatch", "key %s: every lifetime has a successful delete of its last version, yet the final read found version %q", cl.K, cl.R.V)
			}
		case alive != nil && cl.R == nil:
			c.bad("C18/final-state-mismatch", "key %s: lifetime uid %s (last version %q) was never deleted, yet the final read found nothing", cl.K, alive.uid, alive.last().ver)
		case alive != nil && (cl.R.V != alive.last().ver || cl.R.U != alive.uid):
			c.bad("C18/final-state-mismatch", "key %s: final read returned %q/%s, the chain ends at %q/%s", cl.K, cl.R.V, cl.R.U, alive.last().ver, alive.uid)
		}
	}
}

// ---------------------------------------------------------------------------------------------------------------
// H5: linearizability per key against a sequential register-with-version (porcupine)

type pcState struct {
	P    bool
	V, U string
}

type pcIn struct {
	Op     string
	PV, PU string
	To     pcState // restore target
}

type pcOut struct {
	Err   string
	Found bool
	V, U  string
}

func pcStep(state, input, output any) (bool, any) {
	s := state.(pcState)
	in := input.(pcIn)
	out := output.(pcOut)
	switch in.Op {
	case "write":
		match := (!s.P && in.PV == "") || (s.P && s.V == in.PV && s.U == in.PU)
		switch out.Err {
		case "":
			// WriteCAS: "The given version will be compared to what is stored"; "To create new resources, set version to an empty string"
			return match, pcState{P: true, V: out.V, U: in.PU}
		case "cas":
			// "if it does not match, ErrCASFailure will be returned"
			return !match && ((!s.P && in.PV != "") || (s.P && s.V != in.PV)), s
		case "uid":
			// "if the given resource's Uid field doesn't match what is stored, ErrWrongUid will be returned"
			// (when both uid and version mismatch the contract does not say which error wins: either is accepted)
			return !match && s.P && s.U != in.PU, s
		}
		return false, s
	case "delete":
		switch out.Err {
		case "":
			// "If the resource does not exist ... no error"; "If the given id's Uid does not match what is stored, the deletion will be a no-op"
			if !s.P || s.U != in.PU {
				return true, s
			}
			return s.V == in.PV, pcState{}
		case "cas":
			// version mismatch (with a mismatching uid as well the contract does not fix the outcome: accepted)
			return s.P && s.V != in.PV, s
		}
		return false, s
	case "read":
		if out.Found {
			return s.P && s.V == out.V && s.U == out.U && (in.PU == "" || in.PU == s.U), s
		}
		// "If id.Uid is non-empty, Read will only return a resource if its Uid matches, otherwise it'll return ErrNotFound"
		return !s.P || (in.PU != "" && in.PU != s.U), s
	case "restore":
		return true, in.To
	}
	return false, s
}

var pcModel = porcupine.Model{
	Init:  func() any { return pcState{} },
	Step:  pcStep,
	Equal: func(a, b any) bool { return a.(pcState) == b.(pcState) },
	DescribeOperation: func(in, out any) string {
		return fmt.Sprintf("%+v -> %+v", in, out)
	},
}

func (c *checker) linearizable() {
	var snap, rest *Call
	for i := range c.h.Calls {
		cl := &c.h.Calls[i]
		if cl.Op == "snapshot" && cl.Err == "" {
			snap = cl
		}
		if cl.Op == "restore" && cl.Err == "" {
			rest = cl
		}
	}
	for _, k := range c.keys {
		var ops []porcupine.Operation
		add := func(g int, in pcIn, out pcOut, inv, ret int64) {
			ops = append(ops, porcupine.Operation{ClientId: len(ops), Input: in, Output: out, Call: inv, Return: ret})
		}
		for _, cl := range c.calls[k] {
			switch cl.Op {
			case "write":
				out := pcOut{Err: cl.Err}
				if cl.R != nil {
					out.V, out.U = cl.R.V, cl.R.U
				}
				add(cl.G, pcIn{Op: "write", PV: cl.PV, PU: cl.PU}, out, cl.Inv, cl.Ret)
			case "delete":
				add(cl.G, pcIn{Op: "delete", PV: cl.PV, PU: cl.PU}, pcOut{Err: cl.Err}, cl.Inv, cl.Ret)
			case "read":
				// only StrongConsistency promises linearizability ("a read will always return the most up-to-date version")
				if !cl.Strong {
					c.st.EventualReads++
					continue
				}
				c.st.StrongReads++
				out := pcOut{}
				if cl.R != nil {
					out = pcOut{Found: true, V: cl.R.V, U: cl.R.U}
				}
				add(cl.G, pcIn{Op: "read", PU: cl.PU}, out, cl.Inv, cl.Ret)
			}
		}
		find := func(items []Item) pcOut {
			for _, it := range items {
				if it.K == k {
					return pcOut{Found: true, V: it.V, U: it.U}
				}
			}
			return pcOut{}
		}
		if snap != nil {
			// Store.Snapshot: "a point-in-time snapshot of the store"
			add(GRestorer, pcIn{Op: "read"}, find(snap.Items), snap.Inv, snap.Ret)
		}
		if rest != nil {
			o := find(rest.Items)
			add(GRestorer, pcIn{Op: "restore", To: pcState{P: o.Found, V: o.V, U: o.U}}, pcOut{}, rest.Inv, rest.Ret)
		}
		c.st.PorcupineOps += len(ops)
		if len(ops) == 0 {
			continue
		}
		if !porcupine.CheckOperations(pcModel, ops) {
			c.bad("C18/not-linearizable", "key %s: the write/delete/strong-read history has no linearization against the register-with-version specification:\n%s", k, describeOps(ops))
		}
	}
}

func describeOps(ops []porcupine.Operation) string {
	sort.SliceStable(ops, func(i, j int) bool { return ops[i].Call < ops[j].Call })
	var b strings.Builder
	for i, o := range ops {
		if i >= 60 {
			fmt.Fprintf(&b, "  ... %d more\n", len(ops)-i)
			break
		}
		fmt.Fprintf(&b, "  [%d,%d] %+v -> %+v\n", o.Call, o.Return, o.Input, o.Output)
	}
	return b.String()
}

// ---------------------------------------------------------------------------------------------------------------
// reads of any consistency, lists, list-by-owner: no phantom / future versions; monotonic reads per goroutine

type obs struct {
	g        int
	key      string
	inv, ret int64
	found    bool
	v, u, o  string
	noInfer  bool // a not-found that says nothing about existence (uid-filtered read)
	what     string
}

func (c *checker) weakReads() {
	var all []obs
	for i := range c.h.Calls {
		cl := &c.h.Calls[i]
		if !c.assertable(cl.H) && !cl.Strong {
			continue
		}
		switch cl.Op {
		case "read":
			ob := obs{g: cl.G, key: cl.K, inv: cl.Inv, ret: cl.Ret, what: "read"}
			if cl.R != nil {
				ob.found, ob.v, ob.u, ob.o = true, cl.R.V, cl.R.U, cl.R.O
				if cl.PU != "" && cl.PU != cl.R.U {
					c.bad("C18/read-ignored-uid", "key %s: read with uid %q returned a resource with uid %q", cl.K, cl.PU, cl.R.U)
				}
			} else {
				ob.noInfer = cl.PU != ""
			}
			all = append(all, ob)
		case "list":
			got := map[string]bool{}
			for _, it := range cl.Items {
				if got[it.K] {
					c.bad("C18/list-duplicate", "list %v returned key %s twice", cl.Q, it.K)
				}
				got[it.K] = true
				if !cl.Q.Matches(it.K) {
					c.bad("C18/list-outside-query", "list %v returned key %s", cl.Q, it.K)
				}
				all = append(all, obs{g: cl.G, key: it.K, inv: cl.Inv, ret: cl.Ret, found: true, v: it.V, u: it.U, o: it.O, what: "list"})
			}
			for _, k := range c.keys {
				if cl.Q.Matches(k) && !got[k] {
					all = append(all, obs{g: cl.G, key: k, inv: cl.Inv, ret: cl.Ret, what: "list"})
				}
			}
		case "listowner":
			for _, it := range cl.Items {
				// "ListByOwner returns resources owned by the resource with the given ID"
				if it.O != cl.PO {
					c.bad("C18/listbyowner-wrong-owner", "ListByOwner(%s) returned %s@%s whose owner is %q", cl.PO, it.K, it.V, it.O)
				}
				c.known(obs{g: cl.G, key: it.K, inv: cl.Inv, ret: cl.Ret, found: true, v: it.V, u: it.U, o: it.O, what: "listbyowner"})
			}
		case "snapshot":
			for _, it := range cl.Items {
				c.known(obs{g: cl.G, key: it.K, inv: cl.Inv, ret: cl.Ret, found: true, v: it.V, u: it.U, o: it.O, what: "snapshot"})
			}
		}
	}
	sort.SliceStable(all, func(i, j int) bool { return all[i].inv < all[j].inv })
	type gk struct {
		g int
		k string
	}
	last := map[gk]*obs{}
	lastEp := map[gk]int{}
	for i := range all {
		ob := &all[i]
		if ob.found && !c.known(*ob) {
			continue
		}
		ep := c.epochOf(ob.inv, ob.ret)
		if ep < 0 || ob.noInfer {
			continue
		}
		id := gk{ob.g, ob.key}
		prev := last[id]
		if prev != nil && lastEp[id] == ep {
			c.monotonic(prev, ob, ep)
		}
		last[id] = ob
		lastEp[id] = ep
	}
}

// known: a version that is returned must have been produced by a successful write invoked before the read returned
// (or be the restored one), with the same uid and owner.
func (c *checker) known(ob obs) bool {
	p := c.producer[ob.key][ob.v]
	if p == nil {
		c.bad("C18/read-phantom-version", "%s by g%d [%d,%d] returned %s@%q, a version no successful write of that key produced", ob.what, ob.g, ob.inv, ob.ret, ob.key, ob.v)
		return false
	}
	if p.Inv > ob.ret {
		c.bad("C18/read-from-the-future", "%s by g%d [%d,%d] returned %s@%q, produced by a write invoked at %d", ob.what, ob.g, ob.inv, ob.ret, ob.key, ob.v, p.Inv)
		return false
	}
	if p.R.U != ob.u {
		c.bad("C18/uid-differs-from-written", "%s returned %s@%q with uid %q, written with uid %q", ob.what, ob.key, ob.v, ob.u, p.R.U)
	}
	if p.R.O != ob.o {
		c.bad("C18/owner-differs-from-written", "%s returned %s@%q with owner %q, written with owner %q", ob.what, ob.key, ob.v, ob.o, p.R.O)
	}
	return true
}

// monotonic: "a read will always return results that are as up-to-date as an earlier read" (same server).
func (c *checker) monotonic(prev, cur *obs, ep int) {
	if cur.inv < prev.ret {
		return // not sequential
	}
	ch := c.chains[cur.key][ep]
	if ch == nil {
		return
	}
	if !prev.found {
		return // nothing to regress from (absence before a create and after a delete look the same)
	}
	pe := ch.byVer[prev.v]
	if pe == nil {
		return
	}
	if cur.found {
		ce := ch.byVer[cur.v]
		if ce == nil {
			return
		}
		if c.cmp(ce, pe) == -1 {
			c.bad("C18/monotonic-read-regress", "g%d read %s@%q at [%d,%d] and then the OLDER %q at [%d,%d] (%s)", cur.g, cur.key, prev.v, prev.inv, prev.ret, cur.v, cur.inv, cur.ret, cur.what)
		}
		return
	}
	if !pe.life.ended {
		c.bad("C18/monotonic-read-regress", "g%d read %s@%q at [%d,%d] and then found nothing at [%d,%d] (%s) although that lifetime was never deleted", cur.g, cur.key, prev.v, prev.inv, prev.ret, cur.inv, cur.ret, cur.what)
	}
}

// ---------------------------------------------------------------------------------------------------------------
// H3 / H4: watch sessions

func (c *checker) sessions() {
	for i := range c.h.Sessions {
		s := &c.h.Sessions[i]
		c.st.Sessions++
		if s.End == "closed" {
			c.st.SessionsClosed++
		}
		ep := c.epochOf(s.Inv, s.Ret)
		if ep >= 0 {
			c.probsAdd(c.session(s, ep, true))
			continue
		}
		// subscribed while the restore was being committed: the session may belong to either side
		p1 := c.session(s, 1, false)
		if len(p1) == 0 {
			c.session(s, 1, true)
			continue
		}
		p0 := c.session(s, 0, false)
		if len(p0) == 0 {
			c.session(s, 0, true)
			continue
		}
		c.probsAdd(p1)
	}
}

func (c *checker) probsAdd(ps []Problem) {
	for _, p := range ps {
		c.bad(p.Key, "%s", p.Detail)
	}
}

func (c *checker) tolerated(key string) bool { return c.o.Tolerate != nil && c.o.Tolerate(key) }

// session checks one subscription against the chains of one epoch. commit=false: dry run (no stats, no H4).
func (c *checker) session(s *Session, ep int, commit bool) []Problem {
	var out []Problem
	bad := func(key, format string, a ...any) {
		out = append(out, Problem{Key: key, Detail: fmt.Sprintf("watcher %d session [%d,%d] %v epoch %d: ", s.W, s.Inv, s.Ret, s.Q, ep) + fmt.Sprintf(format, a...)})
	}
	switch {
	case strings.HasPrefix(s.End, "error:"):
		bad("C18/watch-error", "ended with %s", s.End)
	case s.End == "timeout" && c.h.Bubble:
		// under testing/synctest the fake clock only advances when every goroutine is durably blocked: the publisher
		// is idle and nothing will ever deliver the sentinel
		bad("C18/watch-event-lost", "the watch never delivered its sentinel %s although the store is quiescent", s.Sentinel)
	case s.End == "timeout":
		bad("C18/harness-watch-timeout", "watch timed out in real time (inconclusive)")
	case s.End == "closed" && (!c.h.HasRestore || s.Inv > c.h.RRet):
		// ErrWatchClosed: "when a snapshot is restored and the watch's events are no longer valid"
		bad("C18/watch-closed-without-restore", "Next returned ErrWatchClosed at %d although no restore was committed after the subscription", s.EndAt)
	case s.End == "sentinel" && c.h.HasRestore && s.Ret < c.h.RInv:
		bad("C18/watch-survived-restore", "subscribed before the restore and still delivered events committed after it")
	}

	// split: listing | live
	listing := map[string]*elem{}
	type liveEv struct {
		ev *Ev
		e  *elem
	}
	live := map[string][]liveEv{}
	var liveKeys []string
	eos := 0
	for i := range s.Evs {
		ev := &s.Evs[i]
		if ev.T == "e" {
			eos++
			if eos > 1 {
				bad("C18/watch-second-end-of-snapshot", "a second EndOfSnapshot marker at %d", ev.At)
			}
			continue
		}
		if ev.T != "u" && ev.T != "d" {
			bad("C18/watch-unknown-event", "event of unknown type at %d", ev.At)
			continue
		}
		if !s.Q.Matches(ev.K) {
			bad("C18/watch-event-outside-query", "event for %s", ev.K)
			continue
		}
		pair := c.chains[ev.K]
		ch := pair[ep]
		var e *elem
		if ch != nil {
			if ev.T == "u" {
				e = ch.byVer[ev.V]
			} else {
				e = ch.delByVer[ev.V]
			}
		}
		if e == nil {
			// not part of this epoch's chain
			other := pair[1-ep]
			inOther := false
			if c.h.HasRestore && other != nil {
				if ev.T == "u" {
					inOther = other.byVer[ev.V] != nil
				} else {
					inOther = other.delByVer[ev.V] != nil
				}
			}
			switch {
			case inOther && ep == 1 && eos > 0:
				key := "C18/watch-after-restore-replays-pre-restore-event"
				if commit && c.tolerated(key) {
					c.foreign[ev] = true
					c.st.Foreign++
				}
				bad(key, "after its EndOfSnapshot a watch opened after the restore received %s %s@%q at %d: an event of the abandoned pre-restore history (the restored store does not contain it)", ev.T, ev.K, ev.V, ev.At)
			case inOther:
				bad("C18/watch-event-of-other-epoch", "received %s %s@%q at %d which belongs to the other side of the restore", ev.T, ev.K, ev.V, ev.At)
			case ev.T == "u":
				bad("C18/watch-phantom-event", "upsert %s@%q at %d: no successful write produced that version", ev.K, ev.V, ev.At)
			default:
				bad("C18/watch-delete-event-without-delete", "delete event %s@%q at %d: no successful delete of that version exists", ev.K, ev.V, ev.At)
			}
			continue
		}
		if ev.T == "u" && (e.life.uid != ev.U || e.owner != ev.O) {
			bad("C18/watch-event-differs-from-written", "upsert %s@%q carries uid %q owner %q, written with uid %q owner %q", ev.K, ev.V, ev.U, ev.O, e.life.uid, e.owner)
		}
		if eos == 0 {
			if ev.T != "u" {
				bad("C18/watch-delete-in-listing", "delete event for %s before EndOfSnapshot", ev.K)
				continue
			}
			if listing[ev.K] != nil {
				bad("C18/watch-listing-duplicate", "the initial listing contains %s twice", ev.K)
			}
			listing[ev.K] = e
			continue
		}
		if live[ev.K] == nil {
			liveKeys = append(liveKeys, ev.K)
		}
		live[ev.K] = append(live[ev.K], liveEv{ev, e})
	}

	// per key: live events form a contiguous run of the chain that starts no later than right after the listing
	for _, k := range liveKeys {
		seq := live[k]
		ch := c.chains[k][ep]
		first := seq[0].e
		if l := listing[k]; l != nil {
			switch c.cmp(first, l) {
			case -1, 0:
				// The documented race (inmem/watch.go): "it's possible to see duplicate events when events are published at
				// the same time as the first subscription is created ... our snapshot handler returns events that have not
				// yet been published". Events already reflected in the listing may be replayed, in order, right after it.
				if commit {
					c.st.Replays++
				}
			case 1:
				if first.life == l.life {
					if first.pos != l.pos+1 {
						bad("C18/watch-event-gap", "%s: listing had version %q, first live event is %s, %d chain element(s) later: events were lost", k, l.ver, descr(first), first.pos-l.pos)
					}
				} else {
					bad("C18/watch-event-gap", "%s: listing had version %q (lifetime %s), first live event %s belongs to a later lifetime: the rest of the listed lifetime was never delivered", k, l.ver, l.life.uid, descr(first))
				}
			}
		} else if isCreate := first.pos == 0 && !first.life.root; !isCreate && !first.life.ended {
			bad("C18/watch-event-gap", "%s: absent from the listing, yet the first live event %s belongs to a lifetime that already existed and was never deleted: the listing or earlier events are missing", k, descr(first))
		} else if !isCreate && commit {
			c.st.Replays++
		}
		for i := 1; i < len(seq); i++ {
			a, b := seq[i-1].e, seq[i].e
			switch {
			case a.life == b.life && b.pos == a.pos+1:
			case a.life == b.life && b.pos <= a.pos:
				bad("C18/watch-event-repeat-or-reorder", "%s: %s delivered at %d after %s delivered at %d", k, descr(b), seq[i].ev.At, descr(a), seq[i-1].ev.At)
			case a.life == b.life:
				bad("C18/watch-event-gap", "%s: %s followed by %s: %d chain element(s) in between were never delivered", k, descr(a), descr(b), b.pos-a.pos-1)
			case a.kind != 'd':
				bad("C18/watch-event-gap", "%s: %s followed by %s of another lifetime without the delete of the first", k, descr(a), descr(b))
			case b.pos != 0 || b.life.root:
				bad("C18/watch-event-gap", "%s: after the delete of lifetime %s the next event is %s, not the create of its lifetime", k, a.life.uid, descr(b))
			case c.order(a.life, b.life) == 1:
				bad("C18/watch-event-repeat-or-reorder", "%s: lifetime %s delivered after lifetime %s although it was committed before it", k, b.life.uid, a.life.uid)
			default:
				for _, z := range ch.lives {
					if z != a.life && z != b.life && c.order(a.life, z) == -1 && c.order(z, b.life) == -1 {
						bad("C18/watch-event-gap", "%s: lifetime %s lies between lifetimes %s and %s and was never delivered", k, z.uid, a.life.uid, b.life.uid)
					}
				}
			}
		}
	}

	// a session that received its sentinel has received everything: its materialized view must be the final state
	if s.End == "sentinel" && ep == c.lastEpoch() {
		for _, k := range c.keys {
			if !s.Q.Matches(k) {
				continue
			}
			if strings.Contains(k, "~s") && k != s.Sentinel {
				continue // sentinels of other watchers are written after this one's
			}
			ch := c.chains[k][ep]
			if ch == nil {
				continue
			}
			var alive *life
			for _, l := range ch.lives {
				if !l.ended {
					alive = l
				}
			}
			view := listing[k]
			if seq := live[k]; len(seq) > 0 {
				view = seq[len(seq)-1].e
			}
			switch {
			case alive == nil && view != nil && view.kind == 'u':
				bad("C18/watch-final-view-mismatch", "%s: the watcher's view ends with %s, the resource was deleted: the delete event was never delivered", k, descr(view))
			case alive != nil && (view == nil || view.kind == 'd'):
				bad("C18/watch-final-view-mismatch", "%s: the store ends with version %q, the watcher's view has nothing: events were lost", k, alive.last().ver)
			case alive != nil && view != alive.last():
				bad("C18/watch-final-view-mismatch", "%s: the store ends with version %q, the watcher's view ends with %s: later events were lost", k, alive.last().ver, descr(view))
			}
		}
	}

	if !commit {
		return out
	}
	for _, evs := range live {
		c.st.LiveEvents += len(evs)
	}
	c.st.ListingItems += len(listing)

	// H4: "Read will never return data that is older than the most recent event you received"
	g := GWatcher0 + s.W
	latest := map[string]*elem{}
	latestAt := map[string]int64{}
	evi := 0
	for i := range c.h.Calls {
		cl := &c.h.Calls[i]
		if cl.G != g || cl.Inv < s.Ret || cl.Inv > s.EndAt {
			continue
		}
		for evi < len(s.Evs) && s.Evs[evi].At < cl.Inv {
			ev := &s.Evs[evi]
			evi++
			if ev.T == "e" || c.foreign[ev] || c.chains[ev.K][ep] == nil {
				continue
			}
			var e *elem
			if ev.T == "u" {
				e = c.chains[ev.K][ep].byVer[ev.V]
			} else {
				e = c.chains[ev.K][ep].delByVer[ev.V]
			}
			if e == nil {
				continue
			}
			if cur := latest[ev.K]; cur == nil || c.cmp(e, cur) == 1 {
				latest[ev.K] = e
				latestAt[ev.K] = ev.At
			}
		}
		if c.epochOf(cl.Inv, cl.Ret) != ep && c.h.HasRestore {
			continue
		}
		switch cl.Op {
		case "read":
			c.st.FollowUpReads++
			m := latest[cl.K]
			if m == nil {
				continue
			}
			if cl.R == nil {
				if m.kind != 'd' && !m.life.ended {
					bad("C18/read-older-than-received-event", "received %s at %d, then Read(%s) at [%d,%d] found nothing although that lifetime was never deleted", descr(m), latestAt[cl.K], cl.K, cl.Inv, cl.Ret)
				}
				continue
			}
			got := c.chains[cl.K][ep].byVer[cl.R.V]
			if got == nil {
				continue // reported as phantom elsewhere
			}
			if c.cmp(got, m) == -1 {
				bad("C18/read-older-than-received-event", "received %s at %d, then Read(%s) at [%d,%d] returned the OLDER version %q", descr(m), latestAt[cl.K], cl.K, cl.Inv, cl.Ret, cl.R.V)
			}
		case "listowner":
			// "ListByOwner ... guarantees monotonic reads with events received from WatchList"
			for k, m := range latest {
				if m.kind != 'u' || m.owner != cl.PO {
					continue
				}
				var got *elem
				for _, it := range cl.Items {
					if it.K == k {
						got = c.chains[k][ep].byVer[it.V]
					}
				}
				if got != nil {
					if c.cmp(got, m) == -1 {
						bad("C18/listbyowner-older-than-received-event", "received %s (owner %s) at %d, then ListByOwner at [%d,%d] returned the OLDER version %q", descr(m), cl.PO, latestAt[k], cl.Inv, cl.Ret, got.ver)
					}
					continue
				}
				if m == m.life.elems[len(m.life.elems)-1] {
					bad("C18/listbyowner-older-than-received-event", "received %s (owner %s) at %d, the last element of its chain, yet ListByOwner at [%d,%d] does not contain %s", descr(m), cl.PO, latestAt[k], cl.Inv, cl.Ret, k)
				}
			}
		}
	}
	return out
}

func descr(e *elem) string {
	if e.kind == 'd' {
		return fmt.Sprintf("delete(of version %q, lifetime %s)", e.ver, e.life.uid)
	}
	return fmt.Sprintf("upsert(version %q, lifetime %s, position %d)", e.ver, e.life.uid, e.pos)
}

// ---------------------------------------------------------------------------------------------------------------
// measurements for labels / non-triviality

func (c *checker) measure() {
	by := map[string][]*Call{}
	var mut []*Call
	for i := range c.h.Calls {
		cl := &c.h.Calls[i]
		if cl.Op != "write" && cl.Op != "delete" {
			continue
		}
		mut = append(mut, cl)
		if cl.PV == "bogus" {
			continue
		}
		id := cl.K + "\x00" + cl.PV
		by[id] = append(by[id], cl)
	}
	for _, cs := range by {
		for i, a := range cs {
			for _, b := range cs[i+1:] {
				if a.G == b.G || a.Op == "delete" && b.Op == "delete" {
					continue
				}
				if a.Inv < b.Ret && b.Inv < a.Ret {
					c.st.OverlapCAS++
					if (a.Err == "" && a.Op == "write") || (b.Err == "" && b.Op == "write") {
						c.st.OverlapCASSuccess++
					}
				}
			}
		}
	}
	for i := range c.h.Sessions {
		s := &c.h.Sessions[i]
		for _, m := range mut {
			if m.Inv < s.Ret && s.Inv < m.Ret {
				c.st.SubscribeInFlight++
				break
			}
		}
	}
}
