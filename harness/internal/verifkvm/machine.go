//go:build verif

// Package verifkvm is the shared KV/session model machine of C03, C04 and C05 (overlay-injected). It drives a
// state.Store through an executor — Store methods directly, or encoded FSM commands — in lock-step with the
// reference model verifstate.KVModel.
package verifkvm

import (
	"bytes"
	"encoding/json"
	"fmt"
	"sort"
	"testing"

	"github.com/hashicorp/consul/agent/consul/state"
	"github.com/hashicorp/consul/agent/structs"
	"github.com/hashicorp/consul/api"
	"github.com/hashicorp/consul/internal/verifkit"
	vs "github.com/hashicorp/consul/internal/verifstate"
)

// verifKeyLockIndexReset: a plain set / check-and-set on a key whose lock counter is N > 0 stores counter 0
// (kvsSetTxn keeps the holder but takes LockIndex from the request). Upstream's own unedited test
// TestStateStore_KVSSetCAS pins a ModifyIndex that only results from that reset, so it cannot be repaired
// without editing the suite: recorded as a known finding.
const KeyLockIndexResetSuffix = "/plain-write-resets-lock-index"

type Machine struct {
	P            string // property id: prefix of every finding signature
	F            verifkit.F
	C            *verifkit.Case
	W            *vs.World
	M            *vs.KVModel
	LastDeleted  map[string]bool // keys deleted at some point (for the non-triviality rule)
	LockResetKey string
	Mixed        bool
	// Exec applies an op to the system under test (default: vs.Apply on the store).
	Exec func(op *vs.Op) vs.Result

	// hooks for the properties that build on this machine
	BeforeStep func(x *Machine, op *vs.Op)
	AfterStep  func(x *Machine, op *vs.Op, res vs.Result)
}

func New(p string, f verifkit.F, c *verifkit.Case, s *state.Store) *Machine {
	if s == nil {
		s = state.NewStateStore(nil)
	}
	m := vs.NewKVModel()
	key := p + KeyLockIndexResetSuffix
	if verifkit.For(p).IsKnown(key) {
		// known finding excluded by construction: the model follows the defective behaviour and counts each time it matters
		m.QuirkPlainWriteResetsLockIndex = true
		m.OnQuirk = func() { c.KnownHit(key); c.Label("known:plain-write-resets-lock-index") }
	}
	x := &Machine{P: p, F: f, C: c, W: vs.NewWorld(s), M: m, LastDeleted: map[string]bool{}, LockResetKey: key}
	x.Exec = func(op *vs.Op) vs.Result { return vs.Apply(x.W.Store, op) }
	return x
}



// syncSessions makes the model's session set equal to the store's: sessions are an INPUT of the KV model
// (who is alive), their effect on keys (release/delete) is what the model predicts.
func (x *Machine) syncSessions(idx uint64) (ended []string) {
	live := map[string]*structs.Session{}
	_, ss, _ := x.W.Store.SessionList(nil, nil)
	for _, s := range ss {
		live[s.ID] = s
	}
	var ids []string
	for id := range x.M.Sess {
		if live[id] == nil {
			ids = append(ids, id)
		}
	}
	sort.Strings(ids)
	for _, id := range ids {
		x.M.SessionEnded(idx, id)
		ended = append(ended, id)
	}
	for id, s := range live {
		if x.M.Sess[id] == nil {
			x.M.Sess[id] = &vs.MSess{ID: id, Behavior: string(s.Behavior), Node: s.Node}
		}
	}
	return ended
}

func (x *Machine) Step(op *vs.Op) {
	f, c := x.F, x.C
	before := map[string]*vs.MEntry{}
	for k, e := range x.M.KV {
		ce := *e
		before[k] = &ce
	}
	if x.BeforeStep != nil {
		x.BeforeStep(x, op)
	}
	res := x.Exec(op)
	defer func() {
		if x.AfterStep != nil {
			x.AfterStep(x, op, res)
		}
	}()
	p := op.P
	idx := op.Idx
	c.Labelf("op=%s", op.Kind)

	check := func(v vs.Verdict) {
		gotErr := res.Err != nil
		if gotErr != v.Err || (!gotErr && res.OK != v.OK) {
			c.Violation(f, x.P+"/verdict/"+op.Kind, "op %s: store reported %s, model expects ok=%v err=%v", op.Desc, res, v.OK, v.Err)
		}
	}
	switch op.Kind {
	case vs.KVSet:
		check(x.M.Set(idx, p.KV.Key, p.KV.Value, p.KV.Flags))
	case vs.KVCAS:
		check(x.M.CAS(idx, p.KV.Key, p.KV.Value, p.KV.Flags, p.KV.ModifyIndex))
	case vs.KVDelete:
		check(x.M.Delete(idx, p.KV.Key))
	case vs.KVDeleteCAS:
		check(x.M.DeleteCAS(idx, p.KV.Key, p.CASIndex))
	case vs.KVDeleteTree:
		check(x.M.DeleteTree(idx, p.KV.Key))
	case vs.KVLock:
		check(x.M.Lock(idx, p.KV.Key, p.KV.Value, p.KV.Flags, p.KV.Session))
	case vs.KVUnlock:
		check(x.M.Unlock(idx, p.KV.Key, p.KV.Value, p.KV.Flags, p.KV.Session))
	case vs.Txn, vs.TxnRO:
		x.stepTxn(op, res)
	case vs.Reap:
		// tombstones are invisible to get/list content
	default:
		// session / catalog ops: no direct KV effect; session endings are picked up below
	}
	if ended := x.syncSessions(idx); len(ended) > 0 {
		c.Label("session-ended")
		if op.Kind != vs.SessDestroy {
			c.Label("session-ended-by-cascade")
		}
	}
	if x.Mixed {
		x.Mixed = false
		for _, k := range vs.Keys {
			_, got, _ := x.W.Store.KVSGet(nil, k, nil)
			x.M.AdoptEntry(k, got)
		}
		before = nil
	}
	x.compare(op, before)
}

func (x *Machine) stepTxn(op *vs.Op, res vs.Result) {
	f, c := x.F, x.C
	for _, t := range op.P.Txn {
		if t.KV == nil {
			// A transaction with catalog/session verbs: KV verbs may depend on in-transaction cascades (a node
			// delete ends a session and frees a key for a later lock). The sequential KV model does not predict
			// those; the model is re-synchronised from the store afterwards and the invariants of C04/C05 judge it.
			x.Mixed = true
			c.Label("txn-mixed")
			if len(res.Errors) > 0 {
				c.Label("txn-aborted")
			} else {
				c.Label("txn-committed")
			}
			return
		}
	}
	mc := x.M.Clone()
	var failed []int
	var expectReads [][]string
	var expectSnap [][]*vs.MEntry // model entries right after the op ran (results reflect the state at op time)
	for i, t := range op.P.Txn {
		if t.KV == nil {
			// catalog/session verbs inside a txn: not modelled here (C04/C05 cover them); their KV side effects
			// arrive through syncSessions. A failing catalog verb aborts the txn: detect through the result.
			expectReads = append(expectReads, nil)
			expectSnap = append(expectSnap, nil)
			continue
		}
		ok, reads := mc.TxnKV(op.Idx, t.KV)
		if !ok {
			failed = append(failed, i)
		}
		expectReads = append(expectReads, reads)
		var snap []*vs.MEntry
		for _, k := range reads {
			if e := mc.KV[k]; e != nil {
				ce := *e
				snap = append(snap, &ce)
			} else {
				snap = append(snap, nil)
			}
		}
		expectSnap = append(expectSnap, snap)
	}
	hasNonKV := false
	for _, t := range op.P.Txn {
		hasNonKV = hasNonKV || t.KV == nil
	}
	gotFailed := map[int]bool{}
	for _, e := range res.Errors {
		gotFailed[e.OpIndex] = true
	}
	for _, i := range failed {
		if !gotFailed[i] {
			c.Violation(f, x.P+"/txn-verb-should-fail/"+string(op.P.Txn[i].KV.Verb), "txn %s: op #%d (%s) must fail per model but store reported %s", op.Desc, i, vs.DescribeTxnOp(op.P.Txn[i]), res)
			return
		}
	}
	for i := range gotFailed {
		if i < len(op.P.Txn) && op.P.Txn[i].KV != nil {
			isModelFail := false
			for _, j := range failed {
				isModelFail = isModelFail || j == i
			}
			if !isModelFail {
				c.Violation(f, x.P+"/txn-verb-should-succeed/"+string(op.P.Txn[i].KV.Verb), "txn %s: op #%d (%s) failed in store (%s) but model accepts it", op.Desc, i, vs.DescribeTxnOp(op.P.Txn[i]), res)
				return
			}
		}
	}
	if len(res.Errors) > 0 {
		c.Label("txn-aborted")
		return // nothing applied; model unchanged
	}
	if op.Kind == vs.TxnRO {
		c.Label("txn-ro-ok")
	} else {
		c.Label("txn-committed")
		if len(op.P.Txn) > 1 {
			c.Label("txn-multi-committed")
		}
		*x.M = *mc
	}
	// compare KV results with the model for pure-KV transactions (result positions are then predictable)
	if hasNonKV {
		return
	}
	var want []string // expected result keys in order
	var wantE []*vs.MEntry
	var wantVerb []api.KVOp
	for i, t := range op.P.Txn {
		switch t.KV.Verb {
		case api.KVDelete, api.KVDeleteCAS, api.KVDeleteTree, api.KVCheckNotExists:
			continue
		}
		want = append(want, expectReads[i]...)
		wantE = append(wantE, expectSnap[i]...)
		for range expectReads[i] {
			wantVerb = append(wantVerb, t.KV.Verb)
		}
	}
	if len(res.Results) != len(want) {
		c.Violation(f, x.P+"/txn-result-count", "txn %s: %d results, model expects %d (%v)", op.Desc, len(res.Results), len(want), want)
		return
	}
	for i, r := range res.Results {
		if r.KV == nil {
			c.Violation(f, x.P+"/txn-result-kind", "txn %s: result #%d is not a KV result", op.Desc, i)
			return
		}
		if r.KV.Key != want[i] {
			c.Violation(f, x.P+"/txn-result-key", "txn %s: result #%d has key %q, model expects %q", op.Desc, i, r.KV.Key, want[i])
			return
		}
		me := wantE[i]
		if me == nil {
			continue // get-or-empty of an absent key
		}
		bad := r.KV.ModifyIndex != me.Modify || r.KV.CreateIndex != me.Create || r.KV.LockIndex != me.LockIndex || r.KV.Session != me.Session || r.KV.Flags != me.Flags
		switch wantVerb[i] {
		case api.KVGet, api.KVGetOrEmpty, api.KVGetTree:
			bad = bad || !bytes.Equal(r.KV.Value, me.Value)
		}
		if bad {
			if c.Violation(f, x.P+"/txn-result-content", "txn %s: result #%d %s differs from model %+v", op.Desc, i, vs.CanonJSON(r.KV), *me) {
				continue
			}
			return
		}
	}
}

// compare reads every key and every prefix back and checks the statement's explicit clauses.
func (x *Machine) compare(op *vs.Op, before map[string]*vs.MEntry) {
	f, c := x.F, x.C
	s := x.W.Store
	for _, k := range vs.Keys {
		_, got, err := s.KVSGet(nil, k, nil)
		if err != nil {
			c.Violation(f, x.P+"/get-error", "KVSGet(%q): %v", k, err)
			continue
		}
		if d := x.M.CompareEntry(k, got); d != "" {
			key := x.P+"/state/" + x.M.FirstDiffField(k, got) + "/after=" + op.Kind
			if me := x.M.KV[k]; me != nil && got != nil && got.LockIndex == 0 && me.LockIndex > 0 && got.Session == me.Session &&
				(op.Kind == vs.KVSet || op.Kind == vs.KVCAS || op.Kind == vs.Txn) {
				key = x.LockResetKey
			}
			if c.Violation(f, key, "after %s: %s", op.Desc, d) {
				x.M.AdoptEntry(k, got)
			}
			continue
		}
		// explicit clauses of the statement, asserted directly on the store's data
		if b := before[k]; b != nil && got != nil && op.Kind != vs.Txn {
			if got.CreateIndex != b.Create {
				c.Violation(f, x.P+"/create-index-changed", "after %s: key %q CreateIndex %d -> %d while the key existed", op.Desc, k, b.Create, got.CreateIndex)
			}
			same := bytes.Equal(b.Value, got.Value) && b.Flags == got.Flags && b.Session == got.Session && b.LockIndex == got.LockIndex
			if same && got.ModifyIndex != b.Modify {
				c.Violation(f, x.P+"/noop-advanced-modify-index", "after %s: key %q unchanged but ModifyIndex %d -> %d", op.Desc, k, b.Modify, got.ModifyIndex)
			}
			if !same && got.ModifyIndex != op.Idx {
				c.Violation(f, x.P+"/change-without-modify-index", "after %s: key %q changed but ModifyIndex=%d, step index=%d", op.Desc, k, got.ModifyIndex, op.Idx)
			}
			if got.LockIndex != b.LockIndex {
				fresh := b.Session == "" && got.Session != ""
				quirk := x.M.QuirkPlainWriteResetsLockIndex && got.LockIndex == 0 && (op.Kind == vs.KVSet || op.Kind == vs.KVCAS) // known finding, counted by the model
				if !(fresh && got.LockIndex == b.LockIndex+1) && !quirk {
					c.Violation(f, x.P+"/lock-index", "after %s: key %q LockIndex %d -> %d (holder %q -> %q)", op.Desc, k, b.LockIndex, got.LockIndex, b.Session, got.Session)
				}
			} else if b.Session == "" && got.Session != "" {
				c.Violation(f, x.P+"/lock-index", "after %s: key %q freshly acquired but LockIndex stayed %d", op.Desc, k, got.LockIndex)
			}
		}
	}
	for _, pfx := range vs.Prefixes {
		_, ents, err := s.KVSList(nil, pfx, nil)
		if err != nil {
			c.Violation(f, x.P+"/list-error", "KVSList(%q): %v", pfx, err)
			continue
		}
		want := x.M.Keys(pfx)
		var got []string
		for _, e := range ents {
			got = append(got, e.Key)
		}
		if fmt.Sprint(got) != fmt.Sprint(want) {
			c.Violation(f, x.P+"/list-keys", "after %s: KVSList(%q) keys %q, model %q", op.Desc, pfx, got, want)
			continue
		}
		for _, e := range ents {
			if d := x.M.CompareEntry(e.Key, e); d != "" {
				c.Violation(f, x.P+"/list-content", "after %s: KVSList(%q): %s", op.Desc, pfx, d)
			}
		}
	}
	// non-triviality bookkeeping
	for k := range before {
		if x.M.KV[k] == nil {
			x.LastDeleted[k] = true
		}
	}
	for k := range x.M.KV {
		if before[k] == nil && x.LastDeleted[k] {
			c.Label("recreate-after-delete")
			c.NonTrivial()
		}
	}
	switch op.Kind {
	case vs.KVCAS, vs.KVDeleteCAS:
		if x.LastDeleted[op.P.KV.Key] {
			c.Label("cas-after-delete")
			c.NonTrivial()
		}
	case vs.KVSet:
		if b := before[op.P.KV.Key]; b != nil && b.Session != "" {
			c.Label("set-on-locked-key")
			c.NonTrivial()
		}
	case vs.KVLock:
		if op.P.KV.Session != "" && x.M.Sess[op.P.KV.Session] == nil {
			c.Label("lock-with-dead-session")
			c.NonTrivial()
		}
	}
}

func Run(p string, f verifkit.F, c *verifkit.Case, setup func(x *Machine), next func(x *Machine, i int) *vs.Op) {
	x := New(p, f, c, nil)
	if setup != nil {
		setup(x)
	}
	defer c.GuardPanic(f, p+"/panic")
	for i := 0; ; i++ {
		op := next(x, i)
		if op == nil {
			break
		}
		c.Op(op)
		x.Step(op)
	}
}

// LoadOps decodes the ops of a replay file.
func LoadOps(t testing.TB, path string) []*vs.Op {
	rp, err := verifkit.LoadReplay(path)
	if err != nil {
		t.Fatal(err)
	}
	var ops []*vs.Op
	for _, raw := range rp.Ops {
		var op vs.Op
		if err := json.Unmarshal(raw, &op); err != nil {
			t.Fatalf("%s: %v", path, err)
		}
		ops = append(ops, op.Load())
	}
	return ops
}

func OpsFeeder(ops []*vs.Op) func(x *Machine, i int) *vs.Op {
	return func(x *Machine, i int) *vs.Op {
		if i >= len(ops) {
			return nil
		}
		return ops[i]
	}
}

