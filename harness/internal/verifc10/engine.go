//go:build verif

package verifc10

import (
	"encoding/json"
	"fmt"
	"os"
	"runtime/debug"
	"sort"
	"strings"
	"sync"

	"github.com/hashicorp/consul/agent/consul/state"
	"github.com/hashicorp/consul/agent/structs"
	"github.com/hashicorp/consul/internal/verifkit"
	vs "github.com/hashicorp/consul/internal/verifstate"
	"pgregory.net/rapid"
)

// ---- rows and cells

type Row struct {
	Type *typeInfo
	Pre  string
}

func (r Row) Name() string { return r.Type.Name + "/" + strings.ReplaceAll(r.Pre, "/", ",") }

// Rows enumerates (type x pre-state) for the types the executor supports.
func Rows(ex Exec) []Row {
	var out []Row
	for i := range Types {
		ti := &Types[i]
		if !ex.Supports(ti.Name) {
			continue
		}
		for _, p := range ti.Pres {
			out = append(out, Row{Type: ti, Pre: p})
		}
	}
	return out
}

// KindPairs lists the supplied-index kinds of a type (pairs for the two-index commands).
func KindPairs(ti *typeInfo) [][2]string {
	var out [][2]string
	for _, k := range IndexKinds {
		if !ti.TwoIdx {
			out = append(out, [2]string{k, ""})
			continue
		}
		for _, k2 := range IndexKinds {
			out = append(out, [2]string{k, k2})
		}
	}
	return out
}

func cellName(exec, typ, pre, k, k2 string) string {
	if k2 != "" {
		k += "+" + k2
	}
	return exec + "|" + typ + "|" + pre + "|" + k
}

// ExpectedCells is the full cross-product the executor has to cover.
func ExpectedCells(ex Exec) []string {
	var out []string
	for _, r := range Rows(ex) {
		for _, kp := range KindPairs(r.Type) {
			out = append(out, cellName(ex.Name(), r.Type.Name, r.Pre, kp[0], kp[1]))
		}
	}
	return out
}

var (
	statMu      sync.Mutex
	cellsSeen   = map[string]int{}
	rejectOther int64
)

// CellsSeen returns how often each cell was executed with the intended pre-state actually established.
func CellsSeen() map[string]int {
	statMu.Lock()
	defer statMu.Unlock()
	out := map[string]int{}
	for k, v := range cellsSeen {
		out[k] = v
	}
	return out
}

// ---- generation of one case of a row

var (
	cfgFull = &vs.Cfg{KV: 20, Session: 6, Catalog: 20, Dereg: 6, Txn: 6, PQ: 2, Config: 10, Coord: 2, TxnCatalog: true, SessionChecks: true, MaxTxnOps: 3}
	// foreign noise: families that do not write the entity's own table (so the arranged pre-state survives)
	cfgForeign = map[string]*vs.Cfg{
		ekKV:      {Catalog: 10, Config: 6, PQ: 2, Coord: 2},
		ekNode:    {KV: 10, Config: 6, PQ: 2},
		ekService: {KV: 10, Config: 6, PQ: 2},
		ekCheck:   {KV: 10, Config: 6, PQ: 2},
		ekConfig:  {KV: 10, Catalog: 10, Dereg: 3, PQ: 2, Coord: 2},
	}
)

func foreignCfg(ek string) *vs.Cfg {
	if c, ok := cfgForeign[ek]; ok {
		return c
	}
	return cfgFull
}

type gen struct {
	t    *rapid.T
	c    *verifkit.Case
	w    *vs.World
	hist []*HistOp
	v    int
	// composite rows arrange roots and config independently: the "other" write must not touch either of them
	composite bool
}

func (g *gen) emit(h *HistOp) {
	g.c.Op(h)
	g.hist = append(g.hist, h)
	_ = ApplyHist(g.w.Store, h) // a refused noise op changes nothing; arrangement ops are checked by the pre-state predicate
}

func (g *gen) nextV() int { g.v++; return g.v }

func (g *gen) vsop(op *vs.Op) { g.emit(&HistOp{VS: op}) }

func (g *gen) x(kind string, flag bool, acc string) {
	g.emit(&HistOp{X: &XOp{Kind: kind, Idx: g.w.NextIdx(g.t), V: g.nextV(), Flag: flag, Accessor: acc}})
}

func (g *gen) noise(cfg *vs.Cfg, max int) {
	n := rapid.IntRange(0, max).Draw(g.t, "nnoise")
	for i := 0; i < n; i++ {
		g.vsop(g.w.DrawOp(g.t, cfg))
	}
}

func pickOther(t *rapid.T, label string, xs []string, not string) string {
	var rest []string
	for _, x := range xs {
		if x != not {
			rest = append(rest, x)
		}
	}
	return rest[rapid.IntRange(0, len(rest)-1).Draw(t, label)]
}

func pickS(t *rapid.T, label string, xs []string) string {
	return xs[rapid.IntRange(0, len(xs)-1).Draw(t, label)]
}

func drawEntity(t *rapid.T, ek string) Entity {
	var e Entity
	switch ek {
	case ekKV:
		e.Key = pickS(t, "key", vs.Keys)
		e.OtherKey = pickOther(t, "okey", vs.Keys, e.Key)
	case ekNode:
		e.Node = pickS(t, "node", vs.Nodes)
		e.OtherNode = pickOther(t, "onode", vs.Nodes, e.Node)
	case ekService:
		e.Node = pickS(t, "node", vs.Nodes)
		e.Service = pickS(t, "svc", vs.ServiceNames)
		e.OtherSvc = pickOther(t, "osvc", vs.ServiceNames, e.Service)
	case ekCheck:
		e.Node = pickS(t, "node", vs.Nodes)
		e.Check = pickS(t, "check", vs.CheckIDs)
		e.OtherChk = pickOther(t, "ocheck", vs.CheckIDs, e.Check)
	case ekConfig:
		e.CEKind = pickS(t, "cekind", []string{structs.ServiceDefaults, structs.ServiceResolver})
		e.CEName = pickS(t, "cename", []string{"c10a", "c10b"})
		e.OtherCE = pickOther(t, "oce", []string{"c10a", "c10b", "c10c"}, e.CEName)
	case ekToken:
		e.Accessor = pickS(t, "acc", TokenAccessors)
		e.OtherAcc = pickOther(t, "oacc", TokenAccessors, e.Accessor)
	}
	return e
}

func (g *gen) create(ek string, e Entity) {
	t, w := g.t, g.w
	switch ek {
	case ekKV:
		g.vsop(vs.NewKV(vs.KVSet, w.NextIdx(t), e.Key, []byte(fmt.Sprintf("h%d", g.nextV())), 0, 0, ""))
	case ekNode:
		g.vsop(registerNode(w.NextIdx(t), e.Node, g.nextV()))
	case ekService:
		g.vsop(registerService(w.NextIdx(t), e.Node, e.Service, g.nextV()))
	case ekCheck:
		g.vsop(registerCheck(w.NextIdx(t), e.Node, e.Check, g.nextV()))
	case ekConfig:
		g.vsop(vs.NewConfig(vs.ConfigSet, w.NextIdx(t), structs.ConfigEntryUpsert, configEntry(e.CEKind, e.CEName, g.nextV())))
	case ekCAConfig:
		g.x(XCAConfigSet, false, "")
	case ekCARoots:
		g.x(XCARootsSet, false, "")
	case ekAutopilot:
		g.x(XAutopilotSet, false, "")
	case ekFG:
		g.x(XFeatureGate, true, "")
	case ekToken:
		g.x(XTokenSet, false, e.Accessor)
	}
}

func (g *gen) del(ek string, e Entity) {
	t, w := g.t, g.w
	switch ek {
	case ekKV:
		g.vsop(vs.NewKV(vs.KVDelete, w.NextIdx(t), e.Key, nil, 0, 0, ""))
	case ekNode:
		g.vsop(vs.NewDereg(vs.DeregNode, w.NextIdx(t), e.Node, "", ""))
	case ekService:
		g.vsop(vs.NewDereg(vs.DeregService, w.NextIdx(t), e.Node, e.Service+"-1", ""))
	case ekCheck:
		g.vsop(vs.NewDereg(vs.DeregCheck, w.NextIdx(t), e.Node, e.Check, ""))
	case ekConfig:
		g.vsop(vs.NewConfig(vs.ConfigDelete, w.NextIdx(t), structs.ConfigEntryDelete, configEntry(e.CEKind, e.CEName, 0)))
	case ekToken:
		g.x(XTokenDelete, false, e.Accessor)
	}
}

// other writes another entity of the same table (for singletons: some other table) AFTER the target.
func (g *gen) other(ek string, e Entity) {
	t, w := g.t, g.w
	switch ek {
	case ekKV:
		g.vsop(vs.NewKV(vs.KVSet, w.NextIdx(t), e.OtherKey, []byte(fmt.Sprintf("o%d", g.nextV())), 0, 0, ""))
	case ekNode:
		g.vsop(registerNode(w.NextIdx(t), e.OtherNode, g.nextV()))
	case ekService:
		g.vsop(registerService(w.NextIdx(t), e.Node, e.OtherSvc, g.nextV()))
	case ekCheck:
		g.vsop(registerCheck(w.NextIdx(t), e.Node, e.OtherChk, g.nextV()))
	case ekConfig:
		g.vsop(vs.NewConfig(vs.ConfigSet, w.NextIdx(t), structs.ConfigEntryUpsert, configEntry(e.CEKind, e.OtherCE, g.nextV())))
	case ekToken:
		g.x(XTokenSet, false, e.OtherAcc)
	case ekCAConfig:
		if !g.composite && rapid.Bool().Draw(t, "otherroots") {
			g.x(XCARootsSet, false, "")
		} else {
			g.x(XCAProvider, false, "")
		}
	case ekCARoots:
		if !g.composite && rapid.Bool().Draw(t, "othercfg") {
			g.x(XCAConfigSet, false, "")
		} else {
			g.x(XCAProvider, false, "")
		}
	case ekAutopilot, ekFG:
		g.x(XCAProvider, false, "")
	}
}

func (g *gen) arrange(ek, pre string, e Entity) {
	t := g.t
	fc := foreignCfg(ek)
	nz := func() { g.noise(fc, 2) }
	if ek == ekService || ek == ekCheck {
		g.vsop(registerNode(g.w.NextIdx(t), e.Node, 0)) // services and checks need their node
		nz()
	}
	singleton := ek == ekCAConfig || ek == ekAutopilot || ek == ekFG || ek == ekCARoots
	switch pre {
	case PAbsent:
		if !singleton && rapid.IntRange(0, 9).Draw(t, "absentafterdelete") < 6 {
			g.create(ek, e)
			nz()
		}
		if !singleton && Probe(g.w.Store, ek, e)[0].Present {
			g.del(ek, e)
		}
	case PPresent:
		g.create(ek, e)
		if rapid.IntRange(0, 9).Draw(t, "rewrite") < 4 {
			nz()
			g.create(ek, e)
		}
	case PUpdated:
		g.create(ek, e)
		nz()
		g.create(ek, e)
	case PRecreated:
		g.create(ek, e)
		nz()
		if ek == ekCARoots {
			g.x(XCARootsSet, true, "") // the whole root set is deleted and replaced by a new one
		} else {
			g.del(ek, e)
			nz()
			g.create(ek, e)
		}
	case POtherNewer:
		g.create(ek, e)
		nz()
		g.other(ek, e)
	case PStatusNewer:
		g.x(XFeatureGate, true, "")
		nz()
		g.x(XFeatureGate, false, "") // status only: status.ModifyIndex > policy.ModifyIndex
	default:
		panic("verifc10: unknown pre-state " + pre)
	}
	nz()
}

func splitCompositePre(pre string) (string, string) {
	parts := strings.Split(pre, "/")
	return strings.TrimPrefix(parts[0], "roots="), strings.TrimPrefix(parts[1], "config=")
}

// GenCase draws one case of a row and executes all its cells.
func GenCase(t *rapid.T, c *verifkit.Case, ex Exec, row Row) {
	ti := row.Type
	if ex.Name() != "store" {
		// the driver gives shard i of every target the same seed: consume a few bits first so that the FSM target
		// does not walk through exactly the histories of the Store target
		rapid.Uint64().Draw(t, "decorrelate-"+ex.Name())
	}
	h := &Header{C10: "row", Exec: ex.Name(), Type: ti.Name, Pre: row.Pre, Ent: drawEntity(t, ti.EK)}
	c.Op(h)
	g := &gen{t: t, c: c, w: vs.NewWorld(state.NewStateStore(nil))}
	g.noise(cfgFull, verifkit.EnvInt("VERIF_C10_PREFIX", 5))
	if ti.EK == ekComposite {
		g.composite = true
		rp, cp := splitCompositePre(row.Pre)
		if rapid.Bool().Draw(t, "rootsfirst") {
			g.arrange(ekCARoots, rp, h.Ent)
			g.arrange(ekCAConfig, cp, h.Ent)
		} else {
			g.arrange(ekCAConfig, cp, h.Ent)
			g.arrange(ekCARoots, rp, h.Ent)
		}
	} else {
		g.arrange(ti.EK, row.Pre, h.Ent)
	}
	run := Run{C10: "run", Idx: g.w.NextIdx(t), V: rapid.IntRange(0, 9).Draw(t, "variant")}
	if ti.Sameable {
		run.Same = rapid.IntRange(0, 9).Draw(t, "same") < 2
	}
	if ti.EK == ekFG && Probe(g.w.Store, ekFG, h.Ent)[0].Present {
		run.NoPol = rapid.IntRange(0, 9).Draw(t, "nopolicy") < 3
	}
	nt := false
	cc := &Ctx{Ex: ex, H: h, Hist: g.hist}
	defer cc.Close()
	for _, kp := range KindPairs(ti) {
		r := run
		r.Kind, r.Kind2 = kp[0], kp[1]
		c.Op(&r)
		if ExecRun(t, c, cc, &r) {
			nt = true
		}
	}
	if nt {
		c.NonTrivial()
	}
}

// ---- execution of one cell

type tracker struct {
	last    [2]Slot
	prev    [2]uint64
	seen    [2]bool // was present at some point, then absent or rewritten
	gone    [2]bool // was present, then absent
	re      [2]bool // was present, absent, present again
	lastIdx uint64
}

func (tr *tracker) step(cur [2]Slot, idx uint64) {
	for i := range cur {
		l := tr.last[i]
		if l.Present && (!cur[i].Present || cur[i].Modify != l.Modify) {
			tr.prev[i] = l.Modify
		}
		if l.Present && !cur[i].Present {
			tr.gone[i] = true
		}
		if !l.Present && cur[i].Present && tr.gone[i] {
			tr.re[i] = true
		}
	}
	tr.last = cur
	if idx > tr.lastIdx {
		tr.lastIdx = idx
	}
}

func (h *HistOp) idx() uint64 {
	if h.VS != nil {
		return h.VS.Idx
	}
	return h.X.Idx
}

// preHolds reports whether the intended pre-state was actually established (noise may disturb it; the oracle does
// not depend on this, only the cell bookkeeping does).
func preHolds(ek, pre string, s Slot, tr *tracker, i int, other Slot) bool {
	switch pre {
	case PAbsent:
		return !s.Present
	case PPresent:
		return s.Present
	case PUpdated:
		return s.Present && s.Create < s.Modify
	case PRecreated:
		if ek == ekCARoots {
			return s.Present && tr.prev[i] > 0
		}
		return s.Present && tr.re[i]
	case POtherNewer:
		if s.Table > 0 && ek != ekCARoots {
			return s.Present && s.Table > s.Modify
		}
		return s.Present && tr.lastIdx > s.Modify
	case PStatusNewer:
		return s.Present && other.Present && other.Modify > s.Modify
	}
	return false
}

type expect int

const (
	expMatch expect = iota
	expMatchSame
	expMismatch
	expDeleteAbsent
	expEither
)

func createIfAbsentMatch(s Slot, sup uint64) bool {
	if !s.Present {
		return sup == 0
	}
	return sup != 0 && sup == s.Modify
}

func expectation(ti *typeInfo, exec string, obs [2]Slot, sup [2]uint64, same bool) (expect, string) {
	s := obs[0]
	switch ti.Sem {
	case semCreateIfAbsent:
		if createIfAbsentMatch(s, sup[0]) {
			if same && ti.Sameable && s.Present {
				return expMatchSame, ""
			}
			return expMatch, ""
		}
		return expMismatch, ""
	case semDeleteCAS:
		if !s.Present {
			return expDeleteAbsent, ""
		}
		if sup[0] == s.Modify {
			return expMatch, ""
		}
		return expMismatch, ""
	case semMustExist:
		switch {
		case s.Present && sup[0] == s.Modify:
			return expMatch, ""
		case !s.Present && sup[0] == 0:
			return expEither, ""
		}
		return expMismatch, ""
	case semTableIndex:
		if sup[0] == s.Modify {
			return expMatch, ""
		}
		return expMismatch, ""
	case semCAConfig:
		if exec == "fsm" && sup[0] == 0 {
			return expMatch, "unconditional" // commands_ce.go: ModifyIndex 0 selects CASetConfig
		}
		if createIfAbsentMatch(s, sup[0]) {
			return expMatch, ""
		}
		return expMismatch, ""
	case semFG:
		m := func(s Slot, sup uint64) bool {
			if !s.Present {
				return sup == 0
			}
			return sup == s.Modify
		}
		if m(obs[0], sup[0]) && m(obs[1], sup[1]) {
			return expMatch, ""
		}
		return expMismatch, ""
	case semComposite:
		mr := sup[0] == obs[0].Modify
		mc := createIfAbsentMatch(obs[1], sup[1])
		switch {
		case mr && mc:
			return expMatch, ""
		case mr != mc:
			return expMismatch, "one-part"
		}
		return expMismatch, ""
	}
	panic("verifc10: unknown semantics " + ti.Sem)
}

func tableChanged(a, b vs.Dump, table string) bool {
	return len(vs.DiffDumps(a, b, func(t string) bool { return t == table })) > 0
}

// Ctx is the execution context of one case: header, history and the store the history was replayed onto. A store
// is reused for the next cell only while the dump comparison showed that the previous cell left it completely
// unchanged (a rejected conditional write); every cell that changed anything is followed by a fresh store with the
// history replayed. So every cell sees exactly the state the history produces.
type Ctx struct {
	Ex   Exec
	H    *Header
	Hist []*HistOp

	store  *state.Store
	run    func(b *Built) Outcome
	done   func()
	tr     *tracker
	before vs.Dump
}

func (cc *Ctx) Close() {
	if cc.done != nil {
		cc.done()
	}
	cc.store, cc.run, cc.done, cc.before = nil, nil, nil, nil
}

func (cc *Ctx) prepare(ek string) {
	if cc.store != nil {
		return
	}
	cc.store, cc.run, cc.done = cc.Ex.New()
	cc.tr = &tracker{}
	cc.tr.step(Probe(cc.store, ek, cc.H.Ent), 0)
	for _, op := range cc.Hist {
		_ = ApplyHist(cc.store, op)
		cc.tr.step(Probe(cc.store, ek, cc.H.Ent), op.idx())
	}
	cc.before = vs.TakeDump(cc.store)
}

// ExecRun executes one cell and judges it. It returns whether the cell is non-trivial by the property's rule.
func ExecRun(f verifkit.F, c *verifkit.Case, cc *Ctx, r *Run) (nontrivial bool) {
	ex, h := cc.Ex, cc.H
	ti := TypeByName(h.Type)
	if ti == nil {
		f.Fatalf("verifc10: unknown type %q", h.Type)
	}
	cc.prepare(ti.EK)
	store, run, tr, before := cc.store, cc.run, cc.tr, cc.before
	unchanged := false
	defer func() {
		if !unchanged {
			cc.Close() // the next cell starts from a fresh store
		}
	}()
	defer c.GuardPanic(f, "C10/panic")
	obs := Observe(before, ti.EK, h.Ent)
	for i := range obs {
		// harness self-check: the dump reader and the store's getters agree on the condition slot
		if p := tr.last[i]; p.Present != obs[i].Present || p.Modify != obs[i].Modify {
			f.Fatalf("verifc10 harness: slot %d of %s %+v read from the dump as %v but through the getters as %v", i, h.Type, h.Ent, obs[i], p)
		}
		obs[i].Prev = tr.prev[i]
	}
	sup := [2]uint64{Resolve(r.Kind, obs[0])}
	if ti.TwoIdx {
		sup[1] = Resolve(r.Kind2, obs[1])
	}
	exp, note := expectation(ti, ex.Name(), obs, sup, r.Same)

	// pre-state bookkeeping
	pre := h.Pre
	holds := false
	if ti.EK == ekComposite {
		rp, cp := splitCompositePre(h.Pre)
		holds = preHolds(ekCARoots, rp, obs[0], tr, 0, Slot{}) && preHolds(ekCAConfig, cp, obs[1], tr, 1, Slot{})
	} else {
		holds = preHolds(ti.EK, h.Pre, obs[0], tr, 0, obs[1])
	}
	if !holds {
		pre += "!disturbed"
	}
	cell := cellName(ex.Name(), h.Type, pre, r.Kind, r.Kind2)
	if holds {
		statMu.Lock()
		cellsSeen[cell]++
		statMu.Unlock()
	}

	b := Build(store, h, r, sup)
	out := run(b)
	after := vs.TakeDump(store)
	diffs := vs.DiffDumps(before, after, nil)
	applied := len(diffs) > 0
	unchanged = !applied
	post := Observe(after, ti.EK, h.Ent)

	desc := fmt.Sprintf("%s via %s: pre=%s entity=%+v slot=%v", h.Type, ex.Name(), pre, h.Ent, obs[0])
	if ti.TwoIdx {
		desc += fmt.Sprintf(" slot2=%v supplied=(%s=%d, %s=%d)", obs[1], r.Kind, sup[0], r.Kind2, sup[1])
	} else {
		desc += fmt.Sprintf(" supplied %s=%d", r.Kind, sup[0])
	}
	desc += fmt.Sprintf(" at raft index %d same=%v -> reported=%v err=%q applied=%v", r.Idx, r.Same, out.Reported, out.Err, applied)
	first := ""
	if applied {
		first = "; first difference: " + diffs[0].String()
	}
	key := func(suffix string) string { return "C10/" + h.Type + "-" + suffix }
	verdict := ""
	viol := func(suffix, format string, args ...any) bool {
		k := key(suffix)
		ok := c.Violation(f, k, "%s: "+format+"%s", append(append([]any{desc}, args...), first)...)
		verdict = "known:" + suffix
		return ok
	}

	judge := func() {
		// composite: all parts or none (takes precedence: it names the part that was applied alone)
		if ti.EK == ekComposite {
			rootsCh := tableChanged(before, after, "connect-ca-roots") || before.IndexTable()["connect-ca-roots"] != after.IndexTable()["connect-ca-roots"]
			cfgCh := tableChanged(before, after, "connect-ca-config")
			switch {
			case cfgCh && !rootsCh:
				viol("applies-config-without-roots", "the configuration was written but the roots were not")
				return
			case rootsCh && !cfgCh:
				viol("applies-roots-without-config", "the roots were replaced but the configuration was not written")
				return
			}
		}
		if out.Err != "" && !out.Verdict {
			// refused for a reason other than the condition: outside the property, but nothing may have changed
			statMu.Lock()
			rejectOther++
			statMu.Unlock()
			verdict = "rejected-other"
			if applied {
				viol("error-but-state-changed", "the command failed (%s) but the state changed", out.Err)
			}
			return
		}
		reported := out.Reported
		switch exp {
		case expMismatch:
			verdict = "rejected"
			switch {
			case applied && (reported || !ti.Observable):
				viol("applies-on-mismatch", "the supplied index does not match but the write was applied")
			case applied:
				viol("changes-state-on-mismatch", "the supplied index does not match, the command reported failure, but the state changed")
			case reported && ti.Observable:
				viol("reports-true-on-mismatch", "the supplied index does not match, nothing was applied, but the command reported success")
			}
		case expMatch:
			verdict = "applied"
			if note != "" {
				verdict = note
			}
			switch {
			case !applied && reported && ti.Observable:
				viol("reports-true-without-applying-on-match", "the supplied index matches and success was reported but nothing changed")
			case !applied:
				viol("rejects-on-match", "the supplied index matches but the write was not applied")
			case !reported && ti.Observable:
				viol("applied-but-reports-false", "the supplied index matches, the write was applied, but the command reported failure")
			default:
				// the write took effect on the entity itself
				bad := ""
				for i := range post {
					if i == 1 && !ti.TwoIdx {
						break
					}
					switch {
					case ti.Delete && post[i].Present:
						bad = fmt.Sprintf("slot %d still present after the delete: %v", i, post[i])
					case !ti.Delete && ti.EK == ekFG && i == 0 && r.NoPol:
						if post[i].Modify != obs[i].Modify {
							bad = fmt.Sprintf("policy rewritten by a status-only update: %v", post[i])
						}
					case !ti.Delete && (!post[i].Present || post[i].Modify != r.Idx):
						bad = fmt.Sprintf("slot %d does not carry the command's index %d: %v", i, r.Idx, post[i])
					}
				}
				if bad != "" {
					viol("effect-missing", "the command reported success and changed the state, but %s", bad)
				}
			}
		case expMatchSame:
			// identical content with a matching index: the store documents that it skips such writes (kvsSetTxn: "Skip
			// further writing in the state store if the entry is not actually changed"; ensureNodeTxn: "We do not need
			// to update anything"; same in ensureServiceTxn / ensureCheckTxn). "applied" may be false; success must
			// still be reported because the condition held.
			verdict = "noop-same"
			if applied {
				verdict = "applied-same"
			}
			if !reported && ti.Observable {
				viol("rejects-on-match", "the supplied index matches (identical content) but the command reported failure")
			}
		case expDeleteAbsent:
			verdict = fmt.Sprintf("delete-absent-reported-%v", reported)
			if applied {
				viol("changes-state-deleting-absent", "a conditional delete of an absent entity changed the state")
			}
		case expEither:
			verdict = fmt.Sprintf("undetermined-reported-%v", reported)
			if ti.Observable && reported != applied {
				viol("report-disagrees-with-effect", "reported=%v but applied=%v", reported, applied)
			}
		}
	}
	judge()

	c.Label(cell + "|" + verdict)
	s0 := obs[0]
	switch {
	case ti.EK == ekComposite && note == "one-part":
		c.Label("class=composite-one-part-mismatch")
		nontrivial = true
	case exp == expMismatch && s0.Present:
		c.Label("class=mismatch-on-present")
		nontrivial = true
	}
	if exp == expMatch && strings.HasPrefix(h.Pre, PRecreated) && holds {
		c.Label("class=match-on-recreated")
		nontrivial = true
	}
	if r.Kind == "older" && s0.Prev > 0 && sup[0] == s0.Prev {
		c.Label("class=stale-index-of-previous-incarnation")
	}
	if exp == expMatchSame {
		c.Label("class=match-same-content")
	}
	if exp == expDeleteAbsent {
		c.Label("class=delete-absent")
	}
	return nontrivial
}

// ---- replay

// ReplayCase re-executes a recorded case (header, history, runs). It returns false when the case belongs to
// another executor.
func ReplayCase(f verifkit.F, c *verifkit.Case, ex Exec, raw []json.RawMessage) bool {
	if len(raw) == 0 {
		return false
	}
	var h Header
	if err := json.Unmarshal(raw[0], &h); err != nil || h.C10 != "row" {
		f.Fatalf("verifc10: replay does not start with a row header: %s", raw[0])
	}
	if h.Exec != ex.Name() {
		return false
	}
	c.Op(&h)
	cc := &Ctx{Ex: ex, H: &h}
	defer cc.Close()
	ran := 0
	for _, m := range raw[1:] {
		var probe struct {
			C10 string `json:"c10"`
		}
		_ = json.Unmarshal(m, &probe)
		if probe.C10 == "run" {
			var r Run
			if err := json.Unmarshal(m, &r); err != nil {
				f.Fatalf("verifc10: bad run op: %v", err)
			}
			c.Op(&r)
			if ExecRun(f, c, cc, &r) {
				c.NonTrivial()
			}
			ran++
			continue
		}
		var op HistOp
		if err := json.Unmarshal(m, &op); err != nil || (op.VS == nil && op.X == nil) {
			f.Fatalf("verifc10: bad history op %s: %v", m, err)
		}
		if op.VS != nil {
			op.VS.Load()
		}
		c.Op(&op)
		if ran > 0 {
			f.Fatalf("verifc10: history op after a run op in the replay file")
		}
		cc.Hist = append(cc.Hist, &op)
	}
	return ran > 0
}

// ---- the Store-method executor

type StoreExec struct{}

func (StoreExec) Name() string { return "store" }

// The composite CA operation exists only as an FSM command.
func (StoreExec) Supports(typ string) bool { return typ != TCAComposite }

func (StoreExec) New() (*state.Store, func(b *Built) Outcome, func()) {
	vs.StubNet()
	s := state.NewStateStore(nil)
	return s, func(b *Built) Outcome { return RunOnStore(s, b) }, func() {}
}

func boolOutcome(ok bool, err error) Outcome {
	if err != nil {
		return Outcome{Observable: true, Err: err.Error()}
	}
	return Outcome{Observable: true, Reported: ok, Verdict: !ok}
}

// TxnOutcome interprets the answer of a single-verb transaction: no error = applied; "index is stale" is the
// documented CAS verdict of every *-cas verb (state/txn.go).
func TxnOutcome(errs structs.TxnErrors) Outcome {
	if len(errs) == 0 {
		return Outcome{Observable: true, Reported: true}
	}
	return Outcome{Observable: true, Err: errs[0].What, Verdict: strings.Contains(errs[0].What, "index is stale")}
}

// CAConfigOutcome: CACheckAndSetConfig reports a mismatch as the error "ModifyIndex did not match existing".
func CAConfigOutcome(ok bool, err error) Outcome {
	o := boolOutcome(ok, err)
	if err != nil && strings.Contains(err.Error(), "did not match") {
		o.Verdict = true
	}
	return o
}

// RunOnStore executes the command through the exported Store method the FSM handler uses.
func RunOnStore(s *state.Store, b *Built) Outcome {
	switch b.Type {
	case TKVCAS:
		return boolOutcome(s.KVSSetCAS(b.Idx, b.KV))
	case TKVDeleteCAS:
		return boolOutcome(s.KVSDeleteCAS(b.Idx, b.KV.ModifyIndex, b.KV.Key, &b.KV.EnterpriseMeta))
	case TTxnKVCAS, TTxnKVDeleteCAS, TTxnNodeCAS, TTxnNodeDelCAS, TTxnSvcCAS, TTxnSvcDelCAS, TTxnCheckCAS, TTxnCheckDelCAS:
		_, errs := s.TxnRW(b.Idx, b.Txn)
		return TxnOutcome(errs)
	case TCfgUpsertCAS:
		return boolOutcome(s.EnsureConfigEntryCAS(b.Idx, b.CE.GetRaftIndex().ModifyIndex, b.CE))
	case TCfgStatusCAS:
		return boolOutcome(s.EnsureConfigEntryWithStatusCAS(b.Idx, b.CE.GetRaftIndex().ModifyIndex, b.CE))
	case TCfgDeleteCAS:
		return boolOutcome(s.DeleteConfigEntryCAS(b.Idx, b.CE.GetRaftIndex().ModifyIndex, b.CE))
	case TCAConfigCAS:
		return CAConfigOutcome(s.CACheckAndSetConfig(b.Idx, b.CA.Config.ModifyIndex, b.CA.Config))
	case TCARootsCAS:
		return boolOutcome(s.CARootSetCAS(b.Idx, b.CA.Index, b.CA.Roots))
	case TAutopilotCAS:
		return boolOutcome(s.AutopilotCASConfig(b.Idx, b.AP.Config.ModifyIndex, &b.AP.Config))
	case TFeatureGate:
		return boolOutcome(s.FeatureGateUpdate(b.Idx, b.FG))
	case TTokenCAS:
		err := s.ACLTokenBatchSet(b.Idx, b.Tok.Tokens, state.ACLTokenSetOptions{CAS: true})
		if err != nil {
			return Outcome{Err: err.Error()}
		}
		return Outcome{} // no applied-indicator
	}
	panic("verifc10: store executor cannot run " + b.Type)
}

// ---- the outer tests (shared by both targets)

// RunCells is the body of TestVerifC10Cells.
func RunCells(t T, ex Exec, check func(t T, name string, prop func(*rapid.T))) {
	rec := verifkit.For("C10")
	defer rec.Flush()
	// thousands of tiny short-lived stores: trade a little memory for much less GC work (no effect on any verdict)
	defer debug.SetGCPercent(debug.SetGCPercent(400))
	only := os.Getenv("VERIF_C10_ONLY") // development aid: substring of the row name
	for _, row := range Rows(ex) {
		row := row
		if only != "" && !strings.Contains(row.Name(), only) {
			continue
		}
		check(t, row.Name(), func(rt *rapid.T) {
			c := rec.NewCase()
			GenCase(rt, c, ex, row)
			c.Done()
		})
	}
	// evidence: the cross-product is enumerated completely (every cell executed with its pre-state established)
	seen := CellsSeen()
	expd := ExpectedCells(ex)
	var missing []string
	for _, cell := range expd {
		if seen[cell] == 0 {
			missing = append(missing, cell)
		}
	}
	sort.Strings(missing)
	statMu.Lock()
	ro := rejectOther
	statMu.Unlock()
	if os.Getenv("VERIF_SHARD") == "0" || os.Getenv("VERIF_SHARD") == "" {
		// every shard enumerates the same cells; numeric extras are summed over shards, so only shard 0 reports them
		rec.SetExtra("cells_enumerated", int64(len(expd)-len(missing)))
		rec.SetExtra("cells_expected", int64(len(expd)))
	}
	rec.AddExtraInt("refused_for_other_reasons", ro)
	rec.SetExtra("exhaustive_over_cells", len(missing) == 0 || only != "")
	if len(missing) > 0 && only == "" && !t.Failed() {
		t.Errorf("verifc10: %d of %d cells were never executed with their pre-state established, e.g. %v", len(missing), len(expd), missing[:min(5, len(missing))])
	}
}

// T is the part of *testing.T the shared test bodies need (this package is not a test package).
type T interface {
	verifkit.F
	Errorf(format string, args ...any)
	Failed() bool
}

// RunReplay is the body of TestVerifC10Replay.
func RunReplay(t T, ex Exec) {
	rec := verifkit.For("C10")
	defer rec.Flush()
	for _, path := range verifkit.ReplayFiles("C10") {
		rp, err := verifkit.LoadReplay(path)
		if err != nil {
			t.Fatalf("%v", err)
		}
		c := rec.NewCase()
		c.Label("replay")
		if ReplayCase(t, c, ex, rp.Ops) {
			c.Done()
		}
	}
}
