//go:build verif

// Package verifc10 is the engine of property C10 ("conditional writes are honest: applied iff matched, reported
// iff applied"). It is shared by the two targets of the check — agent/consul/state (commands through the Store
// methods) and agent/consul/fsm (the same commands as encoded FSM commands) — which cannot share test code in any
// other way (two different test packages). It is injected by build overlay only (never stored in /repo).
//
// Structure: a ROW is (command type, intended pre-state). For every row the outer test runs one rapid.Check; each
// rapid case draws the target entity and a short HISTORY that arranges the pre-state (with index gaps and foreign
// noise so that indexes are not contiguous), and then executes EVERY supplied-index kind of the row (6, or 6x6 for
// the two-index commands) — each on a fresh store onto which the same history is replayed. So every cell
// (type x pre-state x index kind) is executed in every rapid case of its row: exhaustive over cells, random over
// histories.
package verifc10

import (
	"github.com/hashicorp/consul/agent/consul/state"
	"github.com/hashicorp/consul/agent/structs"
	"github.com/hashicorp/consul/api"
	vs "github.com/hashicorp/consul/internal/verifstate"
)

// Command types.
const (
	TKVCAS          = "kv-cas"
	TKVDeleteCAS    = "kv-delete-cas"
	TTxnKVCAS       = "txn-kv-cas"
	TTxnKVDeleteCAS = "txn-kv-delete-cas"
	TTxnNodeCAS     = "txn-node-cas"
	TTxnNodeDelCAS  = "txn-node-delete-cas"
	TTxnSvcCAS      = "txn-service-cas"
	TTxnSvcDelCAS   = "txn-service-delete-cas"
	TTxnCheckCAS    = "txn-check-cas"
	TTxnCheckDelCAS = "txn-check-delete-cas"
	TCfgUpsertCAS   = "config-upsert-cas"
	TCfgStatusCAS   = "config-upsert-status-cas"
	TCfgDeleteCAS   = "config-delete-cas"
	TCAConfigCAS    = "ca-config-cas"
	TCARootsCAS     = "ca-roots-cas"
	TCAComposite    = "ca-roots-and-config"
	TAutopilotCAS   = "autopilot-cas"
	TFeatureGate    = "feature-gate-update"
	TTokenCAS       = "acl-token-cas"
)

// Pre-states. For singletons (CA config, autopilot config) an entity cannot be deleted, so "recreated" is replaced
// by "updated" (written more than once: CreateIndex < ModifyIndex). For feature gates "status-newer" = the status
// singleton was rewritten after the policy (the two expected indexes differ).
const (
	PAbsent      = "absent"
	PPresent     = "present"
	PRecreated   = "recreated"
	POtherNewer  = "other-newer"
	PUpdated     = "updated"
	PStatusNewer = "status-newer"
)

// Supplied-index kinds.
var IndexKinds = []string{"zero", "cur", "cur-1", "older", "cur+1", "huge"}

const Huge = ^uint64(0)

// Entity names the target of the conditional command and the "other" entity of the same table.
type Entity struct {
	Key       string `json:"key,omitempty"`
	OtherKey  string `json:"okey,omitempty"`
	Node      string `json:"node,omitempty"`
	OtherNode string `json:"onode,omitempty"`
	Service   string `json:"svc,omitempty"` // service name; ID = name-1
	OtherSvc  string `json:"osvc,omitempty"`
	Check     string `json:"check,omitempty"`
	OtherChk  string `json:"ocheck,omitempty"`
	CEKind    string `json:"cekind,omitempty"`
	CEName    string `json:"cename,omitempty"`
	OtherCE   string `json:"oce,omitempty"`
	Accessor  string `json:"acc,omitempty"`
	OtherAcc  string `json:"oacc,omitempty"`
}

// Header is the first recorded op of a case.
type Header struct {
	C10  string `json:"c10"` // "row"
	Exec string `json:"exec"`
	Type string `json:"type"`
	Pre  string `json:"pre"`
	Ent  Entity `json:"ent"`
}

// XOp is an arrangement step for the tables verifstate has no op for.
type XOp struct {
	Kind     string `json:"kind"`
	Idx      uint64 `json:"idx"`
	V        int    `json:"v,omitempty"`
	Accessor string `json:"acc,omitempty"`
	Flag     bool   `json:"flag,omitempty"` // roots: replace the whole set; fg: with policy
}

const (
	XCAConfigSet  = "ca-config-set"
	XCARootsSet   = "ca-roots-set"
	XCAProvider   = "ca-provider-state"
	XAutopilotSet = "autopilot-set"
	XFeatureGate  = "fg-set"
	XTokenSet     = "token-set"
	XTokenDelete  = "token-delete"
)

// HistOp is one step of the pre-state history.
type HistOp struct {
	VS *vs.Op `json:"vs,omitempty"`
	X  *XOp   `json:"x,omitempty"`
}

// Run is one execution of the row's command with one supplied-index kind (two for the two-index commands).
type Run struct {
	C10   string `json:"c10"` // "run"
	Kind  string `json:"ikind"`
	Kind2 string `json:"ikind2,omitempty"`
	Idx   uint64 `json:"idx"`             // raft index of the command
	Same  bool   `json:"same,omitempty"`  // write content identical to the stored one (where the store skips such writes)
	V     int    `json:"v,omitempty"`     // content variant
	NoPol bool   `json:"nopol,omitempty"` // feature gate: request without policy (status only)
}

// Built is the concrete command: exactly the request structs the FSM decodes, built from a Run and the store.
type Built struct {
	Type string
	Idx  uint64

	KVOp api.KVOp
	KV   *structs.DirEntry
	Txn  structs.TxnOps
	CEOp structs.ConfigEntryOp
	CE   structs.ConfigEntry
	CA   *structs.CARequest
	AP   *structs.AutopilotSetConfigRequest
	FG   *structs.FeatureGateUpdateRequest
	Tok  *structs.ACLTokenBatchSetRequest
}

// Outcome is what the API under test returned.
type Outcome struct {
	Observable bool   // the API has an applied-indicator (bool, or error-on-mismatch)
	Reported   bool   // it indicated "applied"
	Verdict    bool   // a negative answer is the documented CAS verdict (false / "index is stale" / "did not match"), not another error
	Err        string // error text, if any
}

// Exec runs commands through one API level.
type Exec interface {
	Name() string
	Supports(typ string) bool
	// New returns a fresh store and the function that executes a command against it.
	New() (*state.Store, func(b *Built) Outcome, func())
}
