//go:build verif

package verifc10

import (
	"fmt"

	"github.com/hashicorp/consul/agent/consul/state"
	"github.com/hashicorp/consul/agent/structs"
	"github.com/hashicorp/consul/api"
	vs "github.com/hashicorp/consul/internal/verifstate"
	"github.com/hashicorp/consul/types"
)

// Entity kinds.
const (
	ekKV        = "kv"
	ekNode      = "node"
	ekService   = "service"
	ekCheck     = "check"
	ekConfig    = "config"
	ekCAConfig  = "caconfig"
	ekCARoots   = "caroots"
	ekAutopilot = "autopilot"
	ekFG        = "fg"
	ekToken     = "token"
	ekComposite = "composite"
)

// Condition semantics — each taken from what the command documents (source quoted at the constant).
const (
	// "A ModifyIndex of 0 means that we are doing a set-if-not-exists" (kvs.go kvsSetCASTxn, catalog.go
	// ensureNodeCASTxn / ensureServiceCASTxn / ensureCheckCASTxn, config_entry.go EnsureConfigEntryCAS /
	// EnsureConfigEntryWithStatusCAS; acl.go aclTokenSetTxn: "set-if-unset case", "token already deleted", "check
	// for other modifications"; HTTP docs of KV `cas` and of the txn verbs `cas`). Non-zero: the entity must exist
	// and its ModifyIndex must equal the supplied index.
	semCreateIfAbsent = "create-if-absent"
	// "If the CAS index specified is not equal to the last observed index for the given key/node/service/check,
	// then the call is a noop, otherwise a normal delete is invoked" (kvs.go KVSDeleteCAS, catalog.go
	// delete*CASTxn); config_entry.go DeleteConfigEntryCAS: "If the index is not specified, or is not equal to the
	// entry's current ModifyIndex then the call is a noop". Index 0 never deletes an existing entity (KV docs: "a 0
	// index will not delete the key"). Deleting an ABSENT entity is not fixed by these texts: KV answers true
	// (upstream tests assert it), the catalog verbs and config entries answer false. Both are accepted; the state
	// must stay untouched.
	semDeleteCAS = "delete-cas"
	// autopilot.go AutopilotCASConfig: "If the CAS index specified is not equal to the last observed index for the
	// config, then the call is a noop". An absent config has no index: a non-zero index is a mismatch; index 0 on an
	// absent config is not fixed by the text (the code answers false) — any answer consistent with what was done is
	// accepted.
	semMustExist = "must-exist"
	// connect_ca.go CARootSetCAS/caRootSetCASTxn: the supplied index is compared with the index-table entry of the
	// roots table ("Get the current max index"); structs.CARequest.Index: "used by CAOpSetRoots ... for a CAS
	// operation". No roots yet = table index 0.
	semTableIndex = "table-index"
	// connect_ca.go CACheckAndSetConfig: "If the CAS index specified is not equal to the last observed index for the
	// config, then the call will return an error"; absent config matches index 0 only. At the FSM level
	// (commands_ce.go CAOpSetConfig) ModifyIndex 0 selects the UNCONDITIONAL CASetConfig.
	semCAConfig = "ca-config"
	// feature_gate.go FeatureGateUpdate: "returns false, nil when either expected index no longer matches";
	// structs.FeatureGateUpdateRequest: "Index zero matches an absent singleton".
	semFG = "feature-gate"
	// commands_ce.go CAOpSetRootsAndConfig: roots part = table-index semantics with CARequest.Index, config part =
	// CACheckAndSetConfig with Config.ModifyIndex (0 = only if absent). "could not atomically update roots and
	// config" (leader_connect_ca.go) — the callers rely on all-or-none.
	semComposite = "composite"
)

type typeInfo struct {
	Name       string
	EK         string
	Sem        string
	Delete     bool
	Sameable   bool // the store skips writes of identical content (kvsSetTxn / ensureNodeTxn / ensureServiceTxn / ensureCheckTxn)
	TwoIdx     bool
	Observable bool // has an applied-indicator
	Pres       []string
}

var (
	presEntity    = []string{PAbsent, PPresent, PRecreated, POtherNewer}
	presSingleton = []string{PAbsent, PPresent, PUpdated, POtherNewer}
	presFG        = []string{PAbsent, PPresent, PStatusNewer, POtherNewer}
)

// Types lists every conditional command type of the tree.
var Types = []typeInfo{
	{Name: TKVCAS, EK: ekKV, Sem: semCreateIfAbsent, Sameable: true, Observable: true, Pres: presEntity},
	{Name: TKVDeleteCAS, EK: ekKV, Sem: semDeleteCAS, Delete: true, Observable: true, Pres: presEntity},
	{Name: TTxnKVCAS, EK: ekKV, Sem: semCreateIfAbsent, Sameable: true, Observable: true, Pres: presEntity},
	{Name: TTxnKVDeleteCAS, EK: ekKV, Sem: semDeleteCAS, Delete: true, Observable: true, Pres: presEntity},
	{Name: TTxnNodeCAS, EK: ekNode, Sem: semCreateIfAbsent, Sameable: true, Observable: true, Pres: presEntity},
	{Name: TTxnNodeDelCAS, EK: ekNode, Sem: semDeleteCAS, Delete: true, Observable: true, Pres: presEntity},
	{Name: TTxnSvcCAS, EK: ekService, Sem: semCreateIfAbsent, Sameable: true, Observable: true, Pres: presEntity},
	{Name: TTxnSvcDelCAS, EK: ekService, Sem: semDeleteCAS, Delete: true, Observable: true, Pres: presEntity},
	{Name: TTxnCheckCAS, EK: ekCheck, Sem: semCreateIfAbsent, Sameable: true, Observable: true, Pres: presEntity},
	{Name: TTxnCheckDelCAS, EK: ekCheck, Sem: semDeleteCAS, Delete: true, Observable: true, Pres: presEntity},
	{Name: TCfgUpsertCAS, EK: ekConfig, Sem: semCreateIfAbsent, Observable: true, Pres: presEntity},
	{Name: TCfgStatusCAS, EK: ekConfig, Sem: semCreateIfAbsent, Observable: true, Pres: presEntity},
	{Name: TCfgDeleteCAS, EK: ekConfig, Sem: semDeleteCAS, Delete: true, Observable: true, Pres: presEntity},
	{Name: TCAConfigCAS, EK: ekCAConfig, Sem: semCAConfig, Observable: true, Pres: presSingleton},
	{Name: TCARootsCAS, EK: ekCARoots, Sem: semTableIndex, Observable: true, Pres: presEntity},
	{Name: TAutopilotCAS, EK: ekAutopilot, Sem: semMustExist, Observable: true, Pres: presSingleton},
	{Name: TFeatureGate, EK: ekFG, Sem: semFG, TwoIdx: true, Observable: true, Pres: presFG},
	// ACLTokenBatchSet returns only an error and a CAS mismatch is NOT an error: "reported" is not observable.
	{Name: TTokenCAS, EK: ekToken, Sem: semCreateIfAbsent, Observable: false, Pres: presEntity},
	{Name: TCAComposite, EK: ekComposite, Sem: semComposite, TwoIdx: true, Observable: true, Pres: compositePres()},
}

func compositePres() []string {
	var out []string
	for _, r := range presEntity {
		for _, c := range []string{PAbsent, PPresent, PUpdated} {
			out = append(out, "roots="+r+"/config="+c)
		}
	}
	return out
}

func TypeByName(n string) *typeInfo {
	for i := range Types {
		if Types[i].Name == n {
			return &Types[i]
		}
	}
	return nil
}

// Slot is what one index condition of a command looks at.
type Slot struct {
	Present bool
	Modify  uint64 // ModifyIndex of the entity (table index for the CA roots)
	Create  uint64
	Table   uint64 // index-table entry of the entity's table
	Prev    uint64 // the most recent OTHER ModifyIndex the entity had (previous incarnation / previous write); tracked while replaying
}

func (s Slot) String() string {
	return fmt.Sprintf("{present=%v modify=%d create=%d table=%d prev=%d}", s.Present, s.Modify, s.Create, s.Table, s.Prev)
}

var tokenSecrets = map[string]string{
	"c10a0000-0000-4000-8000-000000000001": "c10s0000-0000-4000-8000-000000000001",
	"c10a0000-0000-4000-8000-000000000002": "c10s0000-0000-4000-8000-000000000002",
}

var TokenAccessors = []string{"c10a0000-0000-4000-8000-000000000001", "c10a0000-0000-4000-8000-000000000002"}

// ---- observation from the canonical dump (the oracle's source of "matched")

func num(m map[string]interface{}, k string) uint64 {
	if m == nil {
		return 0
	}
	f, _ := m[k].(float64)
	return uint64(f)
}

func findRow(d vs.Dump, table string, match map[string]string) map[string]interface{} {
	for _, m := range d.Rows(table) {
		ok := true
		for k, v := range match {
			s, _ := m[k].(string)
			if s != v {
				ok = false
				break
			}
		}
		if ok {
			return m
		}
	}
	return nil
}

func rowSlot(d vs.Dump, table string, match map[string]string) Slot {
	r := findRow(d, table, match)
	return Slot{Present: r != nil, Modify: num(r, "ModifyIndex"), Create: num(r, "CreateIndex"), Table: d.IndexTable()[table]}
}

func rootsSlot(d vs.Dump) Slot {
	ti := d.IndexTable()["connect-ca-roots"]
	return Slot{Present: len(d["connect-ca-roots"]) > 0, Modify: ti, Table: ti}
}

// Observe reads the condition slot(s) of the entity from a dump.
func Observe(d vs.Dump, ek string, e Entity) [2]Slot {
	switch ek {
	case ekKV:
		return [2]Slot{rowSlot(d, "kvs", map[string]string{"Key": e.Key})}
	case ekNode:
		return [2]Slot{rowSlot(d, "nodes", map[string]string{"Node": e.Node, "PeerName": ""})}
	case ekService:
		return [2]Slot{rowSlot(d, "services", map[string]string{"Node": e.Node, "ServiceID": e.Service + "-1", "PeerName": ""})}
	case ekCheck:
		return [2]Slot{rowSlot(d, "checks", map[string]string{"Node": e.Node, "CheckID": e.Check, "PeerName": ""})}
	case ekConfig:
		return [2]Slot{rowSlot(d, "config-entries", map[string]string{"Kind": e.CEKind, "Name": e.CEName})}
	case ekCAConfig:
		return [2]Slot{rowSlot(d, "connect-ca-config", nil)}
	case ekCARoots:
		return [2]Slot{rootsSlot(d)}
	case ekAutopilot:
		return [2]Slot{rowSlot(d, "autopilot-config", nil)}
	case ekFG:
		return [2]Slot{rowSlot(d, "feature-gate-policy", nil), rowSlot(d, "feature-gate-status", nil)}
	case ekToken:
		return [2]Slot{rowSlot(d, "acl-tokens", map[string]string{"AccessorID": e.Accessor})}
	case ekComposite:
		return [2]Slot{rootsSlot(d), rowSlot(d, "connect-ca-config", nil)}
	}
	panic("verifc10: unknown entity kind " + ek)
}

// ---- observation through the store's getters (aims the generator, resolves index kinds, cross-checks Observe)

func raftSlot(present bool, ri structs.RaftIndex) Slot {
	if !present {
		return Slot{}
	}
	return Slot{Present: true, Modify: ri.ModifyIndex, Create: ri.CreateIndex}
}

func Probe(s *state.Store, ek string, e Entity) [2]Slot {
	switch ek {
	case ekKV:
		_, ent, _ := s.KVSGet(nil, e.Key, nil)
		if ent == nil {
			return [2]Slot{}
		}
		return [2]Slot{raftSlot(true, ent.RaftIndex)}
	case ekNode:
		_, n, _ := s.GetNode(e.Node, nil, "")
		if n == nil {
			return [2]Slot{}
		}
		return [2]Slot{raftSlot(true, n.RaftIndex)}
	case ekService:
		_, svc, _ := s.NodeService(nil, e.Node, e.Service+"-1", nil, "")
		if svc == nil {
			return [2]Slot{}
		}
		return [2]Slot{raftSlot(true, svc.RaftIndex)}
	case ekCheck:
		_, hc, _ := s.NodeCheck(e.Node, types.CheckID(e.Check), nil, "")
		if hc == nil {
			return [2]Slot{}
		}
		return [2]Slot{raftSlot(true, hc.RaftIndex)}
	case ekConfig:
		_, ce, _ := s.ConfigEntry(nil, e.CEKind, e.CEName, nil)
		if ce == nil {
			return [2]Slot{}
		}
		return [2]Slot{raftSlot(true, *ce.GetRaftIndex())}
	case ekCAConfig:
		return [2]Slot{probeCAConfig(s)}
	case ekCARoots:
		return [2]Slot{probeRoots(s)}
	case ekAutopilot:
		_, c, _ := s.AutopilotConfig()
		if c == nil {
			return [2]Slot{}
		}
		return [2]Slot{{Present: true, Modify: c.ModifyIndex, Create: c.CreateIndex}}
	case ekFG:
		_, p, st, _ := s.FeatureGatePolicyAndStatus(nil)
		var out [2]Slot
		if p != nil {
			out[0] = raftSlot(true, p.RaftIndex)
		}
		if st != nil {
			out[1] = raftSlot(true, st.RaftIndex)
		}
		return out
	case ekToken:
		_, tok, _ := s.ACLTokenGetByAccessor(nil, e.Accessor, nil)
		if tok == nil {
			return [2]Slot{}
		}
		return [2]Slot{raftSlot(true, tok.RaftIndex)}
	case ekComposite:
		return [2]Slot{probeRoots(s), probeCAConfig(s)}
	}
	panic("verifc10: unknown entity kind " + ek)
}

func probeCAConfig(s *state.Store) Slot {
	_, c, _ := s.CAConfig(nil)
	if c == nil {
		return Slot{}
	}
	return raftSlot(true, c.RaftIndex)
}

func probeRoots(s *state.Store) Slot {
	idx, roots, _ := s.CARoots(nil)
	return Slot{Present: len(roots) > 0, Modify: idx}
}

// ---- index-kind resolution (which concrete number a kind means for the observed slot)

func Resolve(kind string, s Slot) uint64 {
	var v uint64
	switch kind {
	case "zero":
		return 0
	case "cur":
		if !s.Present {
			return 0 // an absent entity's "current" index is 0: this cell coincides with (absent, zero)
		}
		return s.Modify
	case "cur-1":
		switch {
		case s.Present:
			v = s.Modify - 1
		case s.Table > 0:
			v = s.Table // absent entity: the table's current index
		default:
			v = 2
		}
	case "older":
		switch {
		case s.Prev > 0 && s.Prev != s.Modify:
			v = s.Prev // index of the previous incarnation / previous write (the ABA case)
		case s.Present && s.Create > 0 && s.Create < s.Modify:
			v = s.Create
		case s.Present && s.Modify > 2:
			v = s.Modify - 2
		default:
			v = 3
		}
	case "cur+1":
		if s.Present {
			v = s.Modify + 1
		} else {
			v = 1
		}
	case "huge":
		v = Huge
	default:
		panic("verifc10: unknown index kind " + kind)
	}
	if v == 0 {
		v = 1
	}
	return v
}

// ---- content

func caConfig(v int) *structs.CAConfiguration {
	return &structs.CAConfiguration{
		ClusterID: "c10c0000-0000-4000-8000-00000000c10c",
		Provider:  "consul",
		Config:    map[string]interface{}{"LeafCertTTL": fmt.Sprintf("%dh", 10+v)},
	}
}

func caRoot(id string, active bool) *structs.CARoot {
	return &structs.CARoot{
		ID:                  id,
		Name:                "C10 root " + id,
		SerialNumber:        7,
		SigningKeyID:        "aa:bb:" + id,
		ExternalTrustDomain: "c10c0000-0000-4000-8000-00000000c10c",
		RootCert:            "-----BEGIN CERTIFICATE-----\n" + id + "\n-----END CERTIFICATE-----\n",
		Active:              active,
		PrivateKeyType:      "ec",
		PrivateKeyBits:      256,
	}
}

// nextRoots builds the root set a rotation writes: the stored roots deactivated plus a new active one — or, with
// replace, only the new one.
func nextRoots(s *state.Store, newID string, replace bool) []*structs.CARoot {
	var out []*structs.CARoot
	if !replace {
		_, cur, _ := s.CARoots(nil)
		for _, r := range cur {
			if r.ID == newID {
				continue
			}
			cp := *r
			cp.Active = false
			cp.RaftIndex = structs.RaftIndex{}
			out = append(out, &cp)
		}
	}
	return append(out, caRoot(newID, true))
}

func autopilotConfig(v int) structs.AutopilotConfig {
	return structs.AutopilotConfig{CleanupDeadServers: v%2 == 0, MaxTrailingLogs: uint64(250 + v), MinQuorum: 3}
}

func fgPolicy(v int) *structs.FeatureGatePolicy {
	return &structs.FeatureGatePolicy{Settings: map[string]structs.FeatureGateSetting{
		"c10-feature":             {Enabled: v%2 == 0, Source: "operator"},
		fmt.Sprintf("c10-f%d", v): {Enabled: true, Source: "operator"},
	}}
}

func fgStatus(v int) *structs.FeatureGateStatus {
	return &structs.FeatureGateStatus{RegistryDigest: fmt.Sprintf("digest-%d", v), Features: map[string]structs.ResolvedFeatureGate{
		"c10-feature": {DesiredEnabled: v%2 == 0, EffectiveEnabled: v%2 == 0, Eligible: true, Source: "operator", Reason: "operator"},
	}}
}

func token(acc string, v int) *structs.ACLToken {
	return &structs.ACLToken{AccessorID: acc, SecretID: tokenSecrets[acc], Description: fmt.Sprintf("c10 token v%d", v),
		EnterpriseMeta: *structs.DefaultEnterpriseMetaInDefaultPartition()}
}

func configEntry(kind, name string, v int) structs.ConfigEntry {
	switch kind {
	case structs.ServiceDefaults:
		return &structs.ServiceConfigEntry{Kind: structs.ServiceDefaults, Name: name, Protocol: "tcp",
			Meta: map[string]string{"c10": fmt.Sprint(v)}, EnterpriseMeta: *structs.DefaultEnterpriseMetaInDefaultPartition()}
	case structs.ServiceResolver:
		return &structs.ServiceResolverConfigEntry{Kind: structs.ServiceResolver, Name: name,
			Meta: map[string]string{"c10": fmt.Sprint(v)}, EnterpriseMeta: *structs.DefaultEnterpriseMetaInDefaultPartition()}
	}
	panic("verifc10: config entry kind " + kind)
}

var defaultEM = *structs.DefaultEnterpriseMetaInDefaultPartition()

func registerNode(idx uint64, node string, v int) *vs.Op {
	id := vs.NodeIDs[node]
	if idx%3 == 0 { // (raft indexes are drawn with random gaps)
		id = "" // a node registered without an ID (older agents, external registrations): lookups by name only
	}
	return vs.NewRegister(idx, &structs.RegisterRequest{Datacenter: "dc1", Node: node, ID: id,
		Address: fmt.Sprintf("10.%d.0.%s", v%200, node[1:]), EnterpriseMeta: defaultEM})
}

func registerService(idx uint64, node, svc string, v int) *vs.Op {
	return vs.NewRegister(idx, &structs.RegisterRequest{Datacenter: "dc1", Node: node, ID: vs.NodeIDs[node], Address: "10.0.0." + node[1:],
		SkipNodeUpdate: true, EnterpriseMeta: defaultEM,
		Service: &structs.NodeService{ID: svc + "-1", Service: svc, Port: 7000 + v%1000, Weights: &structs.Weights{Passing: 1, Warning: 1}, EnterpriseMeta: defaultEM}})
}

func registerCheck(idx uint64, node, check string, v int) *vs.Op {
	st := api.HealthPassing
	if v%2 == 1 {
		st = api.HealthWarning
	}
	return vs.NewRegister(idx, &structs.RegisterRequest{Datacenter: "dc1", Node: node, ID: vs.NodeIDs[node], Address: "10.0.0." + node[1:],
		SkipNodeUpdate: true, EnterpriseMeta: defaultEM,
		Check: &structs.HealthCheck{Node: node, CheckID: types.CheckID(check), Name: check, Status: st, Output: fmt.Sprintf("h%d", v), EnterpriseMeta: defaultEM}})
}

// ApplyX executes an arrangement step of this package.
func ApplyX(s *state.Store, x *XOp) error {
	switch x.Kind {
	case XCAConfigSet:
		return s.CASetConfig(x.Idx, caConfig(x.V))
	case XCARootsSet:
		cur, _, _ := s.CARoots(nil)
		ok, err := s.CARootSetCAS(x.Idx, cur, nextRoots(s, fmt.Sprintf("c10-root-h%d", x.V), x.Flag))
		if err == nil && !ok {
			err = fmt.Errorf("arrangement: CARootSetCAS with the current index answered false")
		}
		return err
	case XCAProvider:
		_, err := s.CASetProviderState(x.Idx, &structs.CAConsulProviderState{ID: "c10-provider", PrivateKey: "k", RootCert: fmt.Sprintf("r%d", x.V)})
		return err
	case XAutopilotSet:
		c := autopilotConfig(x.V)
		return s.AutopilotSetConfig(x.Idx, &c)
	case XFeatureGate:
		_, p, st, _ := s.FeatureGatePolicyAndStatus(nil)
		req := &structs.FeatureGateUpdateRequest{Status: fgStatus(x.V)}
		if p != nil {
			req.ExpectedPolicyIndex = p.ModifyIndex
		}
		if st != nil {
			req.ExpectedStatusIndex = st.ModifyIndex
		}
		if x.Flag || p == nil {
			req.Policy = fgPolicy(x.V)
		}
		ok, err := s.FeatureGateUpdate(x.Idx, req)
		if err == nil && !ok {
			err = fmt.Errorf("arrangement: FeatureGateUpdate with the current indexes answered false")
		}
		return err
	case XTokenSet:
		return s.ACLTokenSet(x.Idx, token(x.Accessor, x.V))
	case XTokenDelete:
		return s.ACLTokenDeleteByAccessor(x.Idx, x.Accessor, nil)
	}
	panic("verifc10: unknown xop " + x.Kind)
}

// ApplyHist executes one history step. Errors of generated noise ops are fine (a refused op changes nothing).
func ApplyHist(s *state.Store, h *HistOp) error {
	if h.VS != nil {
		r := vs.Apply(s, h.VS)
		if r.Err != nil {
			return r.Err
		}
		return nil
	}
	return ApplyX(s, h.X)
}

// ---- building the command

// Build constructs the concrete request for a run against the CURRENT content of the store (needed for "same
// content" writes and for rotation-style root sets). sup are the resolved supplied indexes.
func Build(s *state.Store, h *Header, r *Run, sup [2]uint64) *Built {
	e := h.Ent
	b := &Built{Type: h.Type, Idx: r.Idx}
	cas := sup[0]
	uniq := fmt.Sprintf("c10-%d-%d", r.Idx, r.V)
	switch h.Type {
	case TKVCAS, TTxnKVCAS:
		d := &structs.DirEntry{Key: e.Key, Value: []byte(uniq), Flags: uint64(r.V), EnterpriseMeta: defaultEM}
		if _, cur, _ := s.KVSGet(nil, e.Key, nil); cur != nil && r.Same {
			d.Value, d.Flags = append([]byte(nil), cur.Value...), cur.Flags
		}
		d.ModifyIndex = cas
		if h.Type == TKVCAS {
			b.KVOp, b.KV = api.KVCAS, d
		} else {
			b.Txn = structs.TxnOps{{KV: &structs.TxnKVOp{Verb: api.KVCAS, DirEnt: *d}}}
		}
	case TKVDeleteCAS, TTxnKVDeleteCAS:
		d := &structs.DirEntry{Key: e.Key, EnterpriseMeta: defaultEM}
		d.ModifyIndex = cas
		if h.Type == TKVDeleteCAS {
			b.KVOp, b.KV = api.KVDeleteCAS, d
		} else {
			b.Txn = structs.TxnOps{{KV: &structs.TxnKVOp{Verb: api.KVDeleteCAS, DirEnt: *d}}}
		}
	case TTxnNodeCAS:
		n := structs.Node{Node: e.Node, ID: vs.NodeIDs[e.Node], Address: fmt.Sprintf("10.9.%d.%d", r.Idx%250, r.V%250), Datacenter: "dc1"}
		if _, cur, _ := s.GetNode(e.Node, nil, ""); cur != nil {
			n.ID = cur.ID // the agent re-registers under its own ID
			if cur.ID == "" && r.Idx%2 == 0 {
				n.ID = vs.NodeIDs[e.Node] // ... or brings one for a node that was stored without (the node is still found by name)
			}
			if r.Same {
				n = *cur
				n.RaftIndex = structs.RaftIndex{}
			}
		}
		n.ModifyIndex = cas
		b.Txn = structs.TxnOps{{Node: &structs.TxnNodeOp{Verb: api.NodeCAS, Node: n}}}
	case TTxnNodeDelCAS:
		n := structs.Node{Node: e.Node}
		n.ModifyIndex = cas
		b.Txn = structs.TxnOps{{Node: &structs.TxnNodeOp{Verb: api.NodeDeleteCAS, Node: n}}}
	case TTxnSvcCAS:
		svc := structs.NodeService{ID: e.Service + "-1", Service: e.Service, Port: 20000 + int(r.Idx%10000), Meta: map[string]string{"c10": uniq},
			Weights: &structs.Weights{Passing: 1, Warning: 1}, EnterpriseMeta: defaultEM}
		if _, cur, _ := s.NodeService(nil, e.Node, e.Service+"-1", nil, ""); cur != nil && r.Same {
			svc = *cur
			svc.RaftIndex = structs.RaftIndex{}
		}
		svc.ModifyIndex = cas
		b.Txn = structs.TxnOps{{Service: &structs.TxnServiceOp{Verb: api.ServiceCAS, Node: e.Node, Service: svc}}}
	case TTxnSvcDelCAS:
		svc := structs.NodeService{ID: e.Service + "-1", EnterpriseMeta: defaultEM}
		svc.ModifyIndex = cas
		b.Txn = structs.TxnOps{{Service: &structs.TxnServiceOp{Verb: api.ServiceDeleteCAS, Node: e.Node, Service: svc}}}
	case TTxnCheckCAS:
		hc := structs.HealthCheck{Node: e.Node, CheckID: types.CheckID(e.Check), Name: e.Check, Status: api.HealthCritical, Output: uniq, EnterpriseMeta: defaultEM}
		if _, cur, _ := s.NodeCheck(e.Node, types.CheckID(e.Check), nil, ""); cur != nil {
			hc.ServiceID, hc.ServiceName, hc.Type = cur.ServiceID, cur.ServiceName, cur.Type
			if r.Same {
				hc = *cur.Clone()
				hc.RaftIndex = structs.RaftIndex{}
			}
		}
		hc.ModifyIndex = cas
		b.Txn = structs.TxnOps{{Check: &structs.TxnCheckOp{Verb: api.CheckCAS, Check: hc}}}
	case TTxnCheckDelCAS:
		hc := structs.HealthCheck{Node: e.Node, CheckID: types.CheckID(e.Check), EnterpriseMeta: defaultEM}
		hc.ModifyIndex = cas
		b.Txn = structs.TxnOps{{Check: &structs.TxnCheckOp{Verb: api.CheckDeleteCAS, Check: hc}}}
	case TCfgUpsertCAS, TCfgStatusCAS, TCfgDeleteCAS:
		ce := configEntry(e.CEKind, e.CEName, 1000+int(r.Idx%1000)*10+r.V%10)
		ce.GetRaftIndex().ModifyIndex = cas
		b.CE = ce
		switch h.Type {
		case TCfgUpsertCAS:
			b.CEOp = structs.ConfigEntryUpsertCAS
		case TCfgStatusCAS:
			b.CEOp = structs.ConfigEntryUpsertWithStatusCAS
		default:
			b.CEOp = structs.ConfigEntryDeleteCAS
		}
	case TCAConfigCAS:
		cfg := caConfig(1000 + int(r.Idx%1000))
		cfg.ModifyIndex = cas
		b.CA = &structs.CARequest{Op: structs.CAOpSetConfig, Datacenter: "dc1", Config: cfg}
	case TCARootsCAS:
		b.CA = &structs.CARequest{Op: structs.CAOpSetRoots, Datacenter: "dc1", Index: cas, Roots: nextRoots(s, fmt.Sprintf("c10-root-%d", r.Idx), r.V%3 == 0)}
	case TCAComposite:
		cfg := caConfig(1000 + int(r.Idx%1000))
		cfg.ModifyIndex = sup[1]
		b.CA = &structs.CARequest{Op: structs.CAOpSetRootsAndConfig, Datacenter: "dc1", Index: cas, Config: cfg,
			Roots: nextRoots(s, fmt.Sprintf("c10-root-%d", r.Idx), r.V%3 == 0)}
	case TAutopilotCAS:
		c := autopilotConfig(1000 + int(r.Idx%1000))
		c.ModifyIndex = cas
		b.AP = &structs.AutopilotSetConfigRequest{Datacenter: "dc1", Config: c, CAS: true}
	case TFeatureGate:
		req := &structs.FeatureGateUpdateRequest{Status: fgStatus(1000 + int(r.Idx%1000)), ExpectedPolicyIndex: sup[0], ExpectedStatusIndex: sup[1]}
		if !r.NoPol {
			req.Policy = fgPolicy(1000 + int(r.Idx%1000))
		}
		b.FG = req
	case TTokenCAS:
		tok := token(e.Accessor, 1000+int(r.Idx%1000))
		tok.ModifyIndex = cas
		b.Tok = &structs.ACLTokenBatchSetRequest{Tokens: structs.ACLTokens{tok}, CAS: true}
	default:
		panic("verifc10: unknown type " + h.Type)
	}
	return b
}
