//go:build verif

package verifstate

// FSM command vocabulary for C01/C02: every command is the exact byte slice a leader would hand to raft
// (structs.Encode / structs.EncodeProto of the request the RPC endpoint builds right before raftApply), plus
// the bookkeeping the harness needs (labels, table family, replay).

import (
	"encoding/base64"
	"errors"
	"fmt"
	"net"
	"sort"
	"strings"

	"github.com/hashicorp/go-uuid"
	"google.golang.org/protobuf/proto"

	"github.com/hashicorp/consul/agent/structs"
	"github.com/hashicorp/consul/api"
	"github.com/hashicorp/consul/types"
)

// FCmd is one raft log entry (or, for Kind == "plan", the per-case plan: clock skew, cut points).
type FCmd struct {
	Kind  string `json:"kind"`            // label: <family>/<verb>
	Type  uint8  `json:"type"`            // first byte of the entry: structs.MessageType (+ IgnoreUnknownTypeFlag)
	Idx   uint64 `json:"idx"`             // raft index
	Desc  string `json:"desc,omitempty"`  // human-readable rendering (not used by the oracle)
	Data  string `json:"data,omitempty"`  // base64 of the encoded entry (type byte + body)
	Fam   string `json:"fam,omitempty"`   // table family (non-triviality rule)
	Multi bool   `json:"multi,omitempty"` // multi-row command by construction
	RMW   bool   `json:"rmw,omitempty"`   // reads-modifies earlier state (CAS, lock, deregister, VIP reuse …)

	// wall-clock time (ns, fake clock) that passes on replica A / on the other replicas right before this entry is
	// applied: "same log, different pacing" is part of C01's quantifier
	GapA int64 `json:"gap_a,omitempty"`
	GapB int64 `json:"gap_b,omitempty"`

	// plan fields
	SkewNS int64 `json:"skew_ns,omitempty"`
	Cuts   []int `json:"cuts,omitempty"`
	Reps   int   `json:"reps,omitempty"`
	Late   int   `json:"late,omitempty"` // C02: commands applied between FSM.Snapshot() and Persist()

	raw []byte
}

// Bytes returns the encoded entry (decoded once from Data after a replay load).
func (c *FCmd) Bytes() []byte {
	if c.raw == nil && c.Data != "" {
		b, err := base64.StdEncoding.DecodeString(c.Data)
		if err != nil {
			panic(fmt.Sprintf("verifstate: bad command data: %v", err))
		}
		c.raw = b
	}
	return c.raw
}

// MsgType is the message type without the ignore flag.
func (c *FCmd) MsgType() structs.MessageType {
	return structs.MessageType(c.Type) &^ structs.IgnoreUnknownTypeFlag
}

// ErrEndpointRefuses marks a request the RPC endpoint would refuse before raftApply: it is not a command.
var ErrEndpointRefuses = errors.New("endpoint refuses the request before raft apply")

func refuse(format string, a ...interface{}) error {
	return fmt.Errorf("%w: %s", ErrEndpointRefuses, fmt.Sprintf(format, a...))
}

// NewFCmd encodes a msgpack request exactly as Server.raftApplyMsgpack does.
func NewFCmd(kind, fam string, t structs.MessageType, idx uint64, req interface{}, desc string) *FCmd {
	buf, err := structs.Encode(t, req)
	if err != nil {
		panic(fmt.Sprintf("verifstate: cannot encode %s: %v", kind, err))
	}
	return &FCmd{Kind: kind, Fam: fam, Type: uint8(t), Idx: idx, Desc: desc, Data: base64.StdEncoding.EncodeToString(buf), raw: buf}
}

// NewFCmdProto encodes a protobuf request exactly as Server.raftApplyProtobuf does.
func NewFCmdProto(kind, fam string, t structs.MessageType, idx uint64, req proto.Message, desc string) *FCmd {
	buf, err := structs.EncodeProto(t, req)
	if err != nil {
		panic(fmt.Sprintf("verifstate: cannot encode %s: %v", kind, err))
	}
	return &FCmd{Kind: kind, Fam: fam, Type: uint8(t), Idx: idx, Desc: desc, Data: base64.StdEncoding.EncodeToString(buf), raw: buf}
}

// NewFCmdRaw wraps an already encoded body (resource operations: type byte + pbstorage.Log).
func NewFCmdRaw(kind, fam string, t structs.MessageType, idx uint64, body []byte, desc string) *FCmd {
	buf := append([]byte{uint8(t)}, body...)
	return &FCmd{Kind: kind, Fam: fam, Type: uint8(t), Idx: idx, Desc: desc, Data: base64.StdEncoding.EncodeToString(buf), raw: buf}
}

const fsmDC = "dc1"

// ---- endpoint-side normalisation (the steps the RPC endpoints perform on the request before raftApply)

// ShapeService mirrors consul.servicePreApplyValidate.
func ShapeService(s *structs.NodeService) error {
	if err := s.Validate(); err != nil {
		return refuse("service: %v", err)
	}
	if s.ID == "" && s.Service == "" {
		return refuse("service name and ID empty")
	}
	if s.ID == "" {
		s.ID = s.Service
	}
	if s.Service == "" {
		return refuse("service name empty")
	}
	if ip := net.ParseIP(s.Address); ip != nil && ip.IsUnspecified() {
		return refuse("invalid service address")
	}
	return nil
}

func shapeNode(name, id string) error {
	if name == "" {
		return refuse("must provide node")
	}
	if id != "" {
		if _, err := uuid.ParseUUID(id); err != nil {
			return refuse("bad node ID")
		}
	}
	return nil
}

// ShapeRegister mirrors Catalog.Register up to raftApply (ACLs disabled).
func ShapeRegister(r *structs.RegisterRequest) error {
	if err := shapeNode(r.Node, string(r.ID)); err != nil {
		return err
	}
	if r.Address == "" && !r.SkipNodeUpdate {
		return refuse("must provide address")
	}
	if r.Service != nil {
		if err := ShapeService(r.Service); err != nil {
			return err
		}
	}
	if r.Check != nil {
		r.Checks = append(r.Checks, r.Check)
		r.Check = nil
	}
	for _, c := range r.Checks {
		if c.Node == "" {
			c.Node = r.Node
		}
		if c.CheckID == "" && c.Name != "" {
			c.CheckID = types.CheckID(c.Name)
		}
		if c.Type == "" {
			c.Type = c.CheckType().Type()
		}
	}
	return nil
}

// ShapeTxn mirrors Txn.preCheck's structural part (ACLs disabled): an op list with any error is not appended.
func ShapeTxn(ops structs.TxnOps) error {
	for _, op := range ops {
		switch {
		case op.KV != nil:
			if op.KV.DirEnt.Key == "" && op.KV.Verb != api.KVDeleteTree {
				return refuse("txn kv: must provide key")
			}
			switch op.KV.Verb {
			case api.KVSet, api.KVDelete, api.KVDeleteCAS, api.KVDeleteTree, api.KVCAS, api.KVLock, api.KVUnlock, api.KVGet, api.KVGetOrEmpty, api.KVGetTree,
				api.KVCheckSession, api.KVCheckIndex, api.KVCheckNotExists:
			default:
				return refuse("txn kv: unknown verb %q", op.KV.Verb)
			}
		case op.Node != nil:
			switch op.Node.Verb {
			case api.NodeGet:
			case api.NodeSet, api.NodeCAS, api.NodeDelete, api.NodeDeleteCAS:
				if err := shapeNode(op.Node.Node.Node, string(op.Node.Node.ID)); err != nil {
					return err
				}
			default:
				return refuse("txn node: unknown verb")
			}
		case op.Service != nil:
			switch op.Service.Verb {
			case api.ServiceGet:
			case api.ServiceSet, api.ServiceCAS, api.ServiceDelete, api.ServiceDeleteCAS:
				if err := ShapeService(&op.Service.Service); err != nil {
					return err
				}
			default:
				return refuse("txn service: unknown verb")
			}
		case op.Check != nil:
			switch op.Check.Verb {
			case api.CheckGet:
			case api.CheckSet, api.CheckCAS, api.CheckDelete, api.CheckDeleteCAS:
				if op.Check.Check.CheckID == "" && op.Check.Check.Name != "" {
					op.Check.Check.CheckID = types.CheckID(op.Check.Check.Name)
				}
			default:
				return refuse("txn check: unknown verb")
			}
		case op.Intention != nil:
			switch op.Intention.Op {
			case structs.IntentionOpCreate, structs.IntentionOpDelete, structs.IntentionOpUpdate, structs.IntentionOpDeleteAll, structs.IntentionOpUpsert:
			default:
				return refuse("txn intention: unknown op")
			}
		case op.Session != nil:
			if op.Session.Verb != api.SessionDelete {
				return refuse("txn session: unknown verb")
			}
		default:
			return refuse("txn: unknown operation type")
		}
	}
	return nil
}

var kvVerb = map[string]api.KVOp{
	KVSet: api.KVSet, KVCAS: api.KVCAS, KVDelete: api.KVDelete, KVDeleteCAS: api.KVDeleteCAS, KVDeleteTree: api.KVDeleteTree,
	KVLock: api.KVLock, KVUnlock: api.KVUnlock,
}

// FromOp maps a verifstate op onto the raft entry the corresponding RPC endpoint appends. It returns
// ErrEndpointRefuses (wrapped) when the endpoint would refuse the request before raftApply.
func FromOp(o *Op) (*FCmd, error) {
	p := o.Fresh()
	switch o.Kind {
	case KVSet, KVCAS, KVDelete, KVDeleteCAS, KVDeleteTree, KVLock, KVUnlock:
		if p.KV.Key == "" && o.Kind != KVDeleteTree {
			return nil, refuse("must provide key")
		}
		req := &structs.KVSRequest{Datacenter: fsmDC, Op: kvVerb[o.Kind], DirEnt: *p.KV}
		if o.Kind == KVDeleteCAS {
			req.DirEnt.ModifyIndex = p.CASIndex
		}
		c := NewFCmd("kvs/"+string(req.Op), "kv", structs.KVSRequestType, o.Idx, req, o.Desc)
		c.RMW = o.Kind != KVSet && o.Kind != KVDelete
		c.Multi = o.Kind == KVDeleteTree
		return c, nil
	case SessCreate:
		s := *p.Sess
		if s.Node == "" {
			return nil, refuse("must provide node")
		}
		switch s.Behavior {
		case "":
			s.Behavior = structs.SessionKeysRelease
		case structs.SessionKeysRelease, structs.SessionKeysDelete:
		default:
			return nil, refuse("invalid behavior")
		}
		req := &structs.SessionRequest{Datacenter: fsmDC, Op: structs.SessionCreate, Session: s}
		return NewFCmd("session/create", "session", structs.SessionRequestType, o.Idx, req, o.Desc), nil
	case SessDestroy:
		if p.SessID == "" {
			return nil, refuse("must provide ID")
		}
		req := &structs.SessionRequest{Datacenter: fsmDC, Op: structs.SessionDestroy, Session: structs.Session{ID: p.SessID, Behavior: structs.SessionKeysRelease, EnterpriseMeta: defaultEM}}
		c := NewFCmd("session/destroy", "session", structs.SessionRequestType, o.Idx, req, o.Desc)
		c.RMW, c.Multi = true, true
		return c, nil
	case Reap:
		req := &structs.TombstoneRequest{Datacenter: fsmDC, Op: structs.TombstoneReap, ReapIndex: p.ReapIdx}
		return NewFCmd("tombstone/reap", "kv", structs.TombstoneRequestType, o.Idx, req, o.Desc), nil
	case Register:
		if err := ShapeRegister(p.Reg); err != nil {
			return nil, err
		}
		c := NewFCmd("register", "catalog", structs.RegisterRequestType, o.Idx, p.Reg, "register "+DescribeReg(p.Reg))
		c.Multi = (p.Reg.Service != nil && len(p.Reg.Checks) > 0) || len(p.Reg.Checks) > 1
		return c, nil
	case DeregNode, DeregService, DeregCheck:
		if p.Node == "" {
			return nil, refuse("must provide node")
		}
		req := &structs.DeregisterRequest{Datacenter: fsmDC, Node: p.Node, ServiceID: p.ServiceID, CheckID: types.CheckID(p.CheckID), PeerName: p.Peer, EnterpriseMeta: defaultEM}
		c := NewFCmd("deregister/"+strings.TrimPrefix(o.Kind, "dereg-"), "catalog", structs.DeregisterRequestType, o.Idx, req, o.Desc)
		c.RMW = true
		c.Multi = o.Kind != DeregCheck
		return c, nil
	case Txn:
		if err := ShapeTxn(p.Txn); err != nil {
			return nil, err
		}
		req := &structs.TxnRequest{Datacenter: fsmDC, Ops: p.Txn}
		var parts []string
		for _, t := range p.Txn {
			parts = append(parts, DescribeTxnOp(t))
		}
		c := NewFCmd("txn", "txn", structs.TxnRequestType, o.Idx, req, "txn ["+strings.Join(parts, "; ")+"]")
		c.Multi, c.RMW = len(p.Txn) > 1, true
		return c, nil
	case PQSet:
		q := p.PQ
		if q.Name == "" && q.Template.Type == "" && q.Session == "" {
			return nil, refuse("anonymous query must be bound to a session")
		}
		if q.Service.Service == "" {
			return nil, refuse("must provide a service name")
		}
		req := &structs.PreparedQueryRequest{Datacenter: fsmDC, Op: structs.PreparedQueryUpdate, Query: q}
		if p.PQID == "create" {
			req.Op = structs.PreparedQueryCreate
		}
		return NewFCmd("pq/set", "pq", structs.PreparedQueryRequestType, o.Idx, req, o.Desc), nil
	case PQDelete:
		req := &structs.PreparedQueryRequest{Datacenter: fsmDC, Op: structs.PreparedQueryDelete, Query: &structs.PreparedQuery{ID: p.PQID}}
		c := NewFCmd("pq/delete", "pq", structs.PreparedQueryRequestType, o.Idx, req, o.Desc)
		c.RMW = true
		return c, nil
	case ConfigSet, ConfigDelete:
		req := p.ConfigEntry()
		req.Datacenter = fsmDC
		if err := req.Entry.Normalize(); err != nil {
			return nil, refuse("config entry normalize: %v", err)
		}
		if o.Kind == ConfigSet {
			if err := req.Entry.Validate(); err != nil {
				return nil, refuse("config entry validate: %v", err)
			}
			if req.Op != structs.ConfigEntryUpsert && req.Op != structs.ConfigEntryUpsertCAS {
				req.Op = structs.ConfigEntryUpsert
			}
		} else if req.Op != structs.ConfigEntryDelete && req.Op != structs.ConfigEntryDeleteCAS {
			req.Op = structs.ConfigEntryDelete
		}
		c := NewFCmd("config/"+string(req.Op)+"/"+req.Entry.GetKind(), "config", structs.ConfigEntryRequestType, o.Idx, req,
			fmt.Sprintf("config op=%s %s/%s cas=%d %s", req.Op, req.Entry.GetKind(), req.Entry.GetName(), req.Entry.GetRaftIndex().ModifyIndex, describeCE(req.Entry)))
		c.RMW = req.Op == structs.ConfigEntryUpsertCAS || req.Op == structs.ConfigEntryDeleteCAS || o.Kind == ConfigDelete
		switch e := req.Entry.(type) {
		case *structs.IngressGatewayConfigEntry:
			c.Multi = true
		case *structs.TerminatingGatewayConfigEntry:
			c.Multi = true
			_ = e
		}
		return c, nil
	case CoordUpdate:
		// Coordinate.Update keys pending updates by (node, segment): one entry per key in a batch
		seen := map[string]int{}
		var out structs.Coordinates
		for _, c := range p.Coords {
			if c.Coord == nil || !c.Coord.IsValid() {
				return nil, refuse("invalid coordinate")
			}
			k := c.Node + ":" + c.Segment
			if i, ok := seen[k]; ok {
				out[i] = c
				continue
			}
			seen[k] = len(out)
			out = append(out, c)
		}
		c := NewFCmd("coordinate/batch", "coordinate", structs.CoordinateBatchUpdateType|structs.IgnoreUnknownTypeFlag, o.Idx, out, o.Desc)
		c.Multi = len(out) > 1
		return c, nil
	case SysMetaSet:
		req := &structs.SystemMetadataRequest{Datacenter: fsmDC, Op: structs.SystemMetadataUpsert, Entry: p.SysMeta}
		return NewFCmd("sysmeta/upsert", "sysmeta", structs.SystemMetadataRequestType, o.Idx, req, o.Desc), nil
	}
	return nil, fmt.Errorf("verifstate: op kind %q has no raft command", o.Kind)
}

// FTypeNames names every message type the harness knows a generator for. The fsm test compares this with the
// command table registered by commands_ce.go init() and fails loudly on any registered type that is missing here.
var FTypeNames = map[structs.MessageType]string{
	structs.RegisterRequestType:             "Register",
	structs.DeregisterRequestType:           "Deregister",
	structs.KVSRequestType:                  "KVS",
	structs.SessionRequestType:              "Session",
	structs.DeprecatedACLRequestType:        "DeprecatedACL",
	structs.TombstoneRequestType:            "Tombstone",
	structs.CoordinateBatchUpdateType:       "CoordinateBatchUpdate",
	structs.PreparedQueryRequestType:        "PreparedQuery",
	structs.TxnRequestType:                  "Txn",
	structs.AutopilotRequestType:            "Autopilot",
	structs.FeatureGateRequestType:          "FeatureGate",
	structs.IntentionRequestType:            "Intention",
	structs.ConnectCARequestType:            "ConnectCA",
	structs.ACLTokenSetRequestType:          "ACLTokenSet",
	structs.ACLTokenDeleteRequestType:       "ACLTokenDelete",
	structs.ACLBootstrapRequestType:         "ACLBootstrap",
	structs.ACLPolicySetRequestType:         "ACLPolicySet",
	structs.ACLPolicyDeleteRequestType:      "ACLPolicyDelete",
	structs.ConnectCALeafRequestType:        "ConnectCALeaf",
	structs.ConfigEntryRequestType:          "ConfigEntry",
	structs.ACLRoleSetRequestType:           "ACLRoleSet",
	structs.ACLRoleDeleteRequestType:        "ACLRoleDelete",
	structs.ACLBindingRuleSetRequestType:    "ACLBindingRuleSet",
	structs.ACLBindingRuleDeleteRequestType: "ACLBindingRuleDelete",
	structs.ACLAuthMethodSetRequestType:     "ACLAuthMethodSet",
	structs.ACLAuthMethodDeleteRequestType:  "ACLAuthMethodDelete",
	structs.FederationStateRequestType:      "FederationState",
	structs.SystemMetadataRequestType:       "SystemMetadata",
	structs.PeeringWriteType:                "PeeringWrite",
	structs.PeeringDeleteType:               "PeeringDelete",
	structs.PeeringTerminateByIDType:        "PeeringTerminateByID",
	structs.PeeringTrustBundleWriteType:     "PeeringTrustBundleWrite",
	structs.PeeringTrustBundleDeleteType:    "PeeringTrustBundleDelete",
	structs.PeeringSecretsWriteType:         "PeeringSecretsWrite",
	structs.ResourceOperationType:           "ResourceOperation",
	structs.UpdateVirtualIPRequestType:      "UpdateVirtualIP",
}

// FTypeName renders a message type.
func FTypeName(t structs.MessageType) string {
	if n, ok := FTypeNames[t&^structs.IgnoreUnknownTypeFlag]; ok {
		return n
	}
	return fmt.Sprintf("type-%d", t)
}

// FKnownTypes lists the types in ascending order.
func FKnownTypes() []structs.MessageType {
	var out []structs.MessageType
	for t := range FTypeNames {
		out = append(out, t)
	}
	sort.Slice(out, func(i, j int) bool { return out[i] < out[j] })
	return out
}
