//go:build verif

package verifstate

// Generator additions for C06 (blocking-query contract). Nothing here changes the shared generator: C06 draws
// most ops through World.DrawOp with C06Cfg and mixes in a few aimed families so that the hard shapes the
// property names (gateway links appearing/disappearing, node-level check flips, last instance removal) occur
// in most histories instead of once in a while.

import (
	"bytes"
	"fmt"
	"time"

	"github.com/hashicorp/consul-net-rpc/go-msgpack/codec"
	"github.com/hashicorp/consul/agent/consul/state"
	"github.com/hashicorp/consul/proto/private/pbpeering"
	"google.golang.org/protobuf/proto"
	"google.golang.org/protobuf/types/known/timestamppb"
	"github.com/hashicorp/consul/agent/structs"
	"github.com/hashicorp/consul/api"
	"github.com/hashicorp/consul/types"
	"pgregory.net/rapid"
)

// C06Cfg is the op mix of the C06 histories (weights are relative).
var C06Cfg = &Cfg{
	KV: 22, Session: 10, Reap: 2, Catalog: 24, Dereg: 12, Txn: 8, PQ: 6, Config: 12, Coord: 3, SysMeta: 1, Killer: 4,
	TxnCatalog: true, Peers: true, Connect: true, Rename: true, SessionChecks: true, MaxTxnOps: 3,
}

// GatewayNames are the gateway services of the universe (kind by name).
var GatewayNames = map[string]structs.ServiceKind{
	"term-gw":    structs.ServiceKindTerminatingGateway,
	"ingress-gw": structs.ServiceKindIngressGateway,
}

// DrawC06Op draws one write for a C06 history.
func (w *World) DrawC06Op(t *rapid.T) *Op {
	switch x := rapid.IntRange(0, 99).Draw(t, "c06family"); {
	case x < 12:
		return w.DrawC06Gateway(t)
	case x < 19:
		return w.DrawC06CheckFlip(t)
	case x < 24:
		return w.DrawC06KVDelete(t)
	case x < 28:
		return w.DrawC06Intentions(t)
	case x < 37:
		return w.DrawC06Tags(t)
	case x < 44:
		return w.DrawC06SessionCheck(t)
	case x < 54:
		return w.DrawC06Peering(t)
	case x < 59:
		return w.DrawC06NodeMeta(t)
	case x < 62:
		return w.DrawC06CA(t)
	}
	return w.DrawOp(t, C06Cfg)
}

func (w *World) c06RegReq(node string) *structs.RegisterRequest {
	req := &structs.RegisterRequest{
		Datacenter:     "dc1",
		Node:           node,
		ID:             NodeIDs[node],
		Address:        "10.0.0." + node[1:],
		EnterpriseMeta: defaultEM,
	}
	if _, cur, _ := w.Store.GetNode(node, nil, ""); cur != nil {
		// keep the node row as it is: the op is about the service / check
		req.ID, req.Address, req.NodeMeta, req.TaggedAddresses = cur.ID, cur.Address, cur.Meta, cur.TaggedAddresses
	}
	return req
}

// gatewayInstances lists (node, service id) of the registered instances of a gateway service.
func (w *World) gatewayInstances(name string) [][2]string {
	_, sns, _ := w.Store.ServiceNodes(nil, name, nil, "")
	var out [][2]string
	for _, sn := range sns {
		out = append(out, [2]string{sn.Node, sn.ServiceID})
	}
	return out
}

// DrawC06Gateway aims at gateway links: gateway instances come and go, gateway config entries are written,
// rewritten with other service lists and deleted.
func (w *World) DrawC06Gateway(t *rapid.T) *Op {
	gw := pick(t, "gwname", []string{"term-gw", "term-gw", "term-gw", "ingress-gw", "ingress-gw"})
	kind := GatewayNames[gw]
	ceKind := structs.TerminatingGateway
	if kind == structs.ServiceKindIngressGateway {
		ceKind = structs.IngressGateway
	}
	_, cur, _ := w.Store.ConfigEntry(nil, ceKind, gw, nil)
	insts := w.gatewayInstances(gw)

	k := rapid.IntRange(0, 9).Draw(t, "gwop")
	switch {
	case k <= 2 || (k <= 4 && len(insts) == 0): // (re-)register a gateway instance
		node := pick(t, "gwnode", Nodes)
		if ns := w.LiveNodes(""); len(ns) > 0 && chance(t, "livenode", 70) {
			node = pick(t, "gwnode2", ns).Node
		}
		req := w.c06RegReq(node)
		inst := pick(t, "gwinst", []string{"1", "1", "2"})
		port := 8444
		if kind == structs.ServiceKindIngressGateway {
			port = 8443
		}
		req.Service = &structs.NodeService{
			Kind: kind, Service: gw, ID: gw + "-" + inst, Port: port,
			Weights: &structs.Weights{Passing: 1, Warning: 1}, EnterpriseMeta: defaultEM,
		}
		if chance(t, "gwtags", 30) {
			req.Service.Tags = []string{"a"}
		}
		if chance(t, "gwcheck", 30) {
			req.Checks = structs.HealthChecks{{
				Node: node, CheckID: types.CheckID(pick(t, "gwcheckid", []string{"c1", "c2"})), Name: "gw",
				Status:    pick(t, "gwstatus", []string{api.HealthPassing, api.HealthCritical}),
				ServiceID: req.Service.ID, ServiceName: gw, EnterpriseMeta: defaultEM,
			}}
			req.Checks[0].Name = string(req.Checks[0].CheckID)
		}
		return NewRegister(w.NextIdx(t), req)
	case k <= 4: // deregister a gateway instance
		in := pick(t, "gwinstpick", insts)
		return NewDereg(DeregService, w.NextIdx(t), in[0], in[1], "")
	case k <= 6 && cur != nil: // delete the gateway config entry
		var e structs.ConfigEntry
		if ceKind == structs.TerminatingGateway {
			e = &structs.TerminatingGatewayConfigEntry{Kind: ceKind, Name: gw}
		} else {
			e = &structs.IngressGatewayConfigEntry{Kind: ceKind, Name: gw}
		}
		return NewConfig(ConfigDelete, w.NextIdx(t), structs.ConfigEntryDelete, e)
	}
	// write (or rewrite) the gateway config entry
	var e structs.ConfigEntry
	if ceKind == structs.TerminatingGateway {
		tg := &structs.TerminatingGatewayConfigEntry{Kind: ceKind, Name: gw}
		if chance(t, "wild", 25) {
			tg.Services = append(tg.Services, structs.LinkedService{Name: "*"})
		}
		n := rapid.IntRange(0, 2).Draw(t, "ntgsvc")
		if len(tg.Services) == 0 && n == 0 {
			n = 1
		}
		for i := 0; i < n; i++ {
			nm := pick(t, "tgsvc", ServiceNames)
			dupl := false
			for _, s := range tg.Services {
				dupl = dupl || s.Name == nm
			}
			if !dupl {
				tg.Services = append(tg.Services, structs.LinkedService{Name: nm})
			}
		}
		e = tg
	} else {
		ig := &structs.IngressGatewayConfigEntry{Kind: ceKind, Name: gw}
		l := structs.IngressListener{Port: 8000, Protocol: "tcp", Services: []structs.IngressService{{Name: pick(t, "igsvc", ServiceNames)}}}
		ig.Listeners = append(ig.Listeners, l)
		if chance(t, "second", 40) {
			ig.Listeners = append(ig.Listeners, structs.IngressListener{Port: 8001, Protocol: "tcp", Services: []structs.IngressService{{Name: pick(t, "igsvc2", ServiceNames)}}})
		}
		e = ig
	}
	if err := e.Normalize(); err != nil {
		t.Skip("gateway entry does not normalise: " + err.Error())
	}
	if err := e.Validate(); err != nil {
		return w.DrawOp(t, C06Cfg)
	}
	return NewConfig(ConfigSet, w.NextIdx(t), structs.ConfigEntryUpsert, e)
}

// DrawC06CheckFlip changes the status/output of an existing check (node-level ones preferred) or adds a node-level
// check to a node that carries services — the shape "a node-level check change is visible in every service of the node".
func (w *World) DrawC06CheckFlip(t *rapid.T) *Op {
	peer := ""
	if chance(t, "peerflip", 15) {
		peer = "peerA"
	}
	ns := w.LiveNodes(peer)
	if len(ns) == 0 {
		return w.DrawOp(t, C06Cfg)
	}
	n := pick(t, "flipnode", ns)
	checks := w.NodeChecks(n.Node, peer)
	var nodeLevel structs.HealthChecks
	for _, c := range checks {
		if c.ServiceID == "" {
			nodeLevel = append(nodeLevel, c)
		}
	}
	req := &structs.RegisterRequest{
		Datacenter: "dc1", Node: n.Node, ID: n.ID, Address: n.Address, NodeMeta: n.Meta, TaggedAddresses: n.TaggedAddresses,
		PeerName: peer, SkipNodeUpdate: chance(t, "skipnode", 50), EnterpriseMeta: defaultEM,
	}
	var c *structs.HealthCheck
	switch {
	case len(nodeLevel) > 0 && chance(t, "existingnodelevel", 75):
		c = pick(t, "flipcheck", nodeLevel).Clone()
	case len(checks) > 0 && chance(t, "existingany", 40):
		c = pick(t, "flipcheck2", checks).Clone()
	default:
		id := pick(t, "newcheckid", []string{"serfHealth", "c3"})
		c = &structs.HealthCheck{Node: n.Node, CheckID: types.CheckID(id), Name: id, Status: api.HealthPassing, PeerName: peer, EnterpriseMeta: defaultEM}
	}
	c.RaftIndex = structs.RaftIndex{}
	old := c.Status
	c.Status = pick(t, "flipstatus", []string{api.HealthPassing, api.HealthWarning, api.HealthCritical})
	if c.Status == old && chance(t, "output", 60) {
		c.Output = pick(t, "flipoutput", []string{"", "ok", "bad"})
	}
	req.Checks = structs.HealthChecks{c}
	return NewRegister(w.NextIdx(t), req)
}

// DrawC06KVDelete deletes an existing key (or a prefix that holds keys) so that listings of parent, own and
// sibling prefixes are all observed around a real removal.
func (w *World) DrawC06KVDelete(t *rapid.T) *Op {
	_, ents, _ := w.Store.KVSList(nil, "", nil)
	if len(ents) == 0 {
		return w.DrawKV(t)
	}
	e := pick(t, "delkey", ents)
	switch rapid.IntRange(0, 5).Draw(t, "delkind") {
	case 0, 1, 2:
		return NewKV(KVDelete, w.NextIdx(t), e.Key, nil, 0, 0, "")
	case 3:
		return NewKV(KVDeleteCAS, w.NextIdx(t), e.Key, nil, 0, e.ModifyIndex, "")
	}
	var holding []string
	for _, p := range Prefixes {
		if p != "" && len(p) <= len(e.Key) && e.Key[:len(p)] == p {
			holding = append(holding, p)
		}
	}
	if len(holding) == 0 {
		return NewKV(KVDelete, w.NextIdx(t), e.Key, nil, 0, 0, "")
	}
	return NewKV(KVDeleteTree, w.NextIdx(t), pick(t, "delprefix", holding), nil, 0, 0, "")
}

// DrawC06Intentions writes, rewrites or deletes a service-intentions config entry (the intention match queries of the
// panel read them; the shared config generator draws this kind rarely).
func (w *World) DrawC06Intentions(t *rapid.T) *Op {
	dest := pick(t, "ixndest", []string{"web", "api", "db", "*"})
	si := &structs.ServiceIntentionsConfigEntry{Kind: structs.ServiceIntentions, Name: dest}
	_, cur, _ := w.Store.ConfigEntry(nil, structs.ServiceIntentions, dest, nil)
	if cur != nil && chance(t, "ixndelete", 35) {
		return NewConfig(ConfigDelete, w.NextIdx(t), structs.ConfigEntryDelete, si)
	}
	n := rapid.IntRange(1, 3).Draw(t, "nixnsrc")
	for i := 0; i < n; i++ {
		src := pick(t, "ixnsrc", []string{"web", "api", "db", "*"})
		dupl := src == dest && dest != "*"
		for _, s := range si.Sources {
			dupl = dupl || s.Name == src
		}
		if dupl {
			continue
		}
		si.Sources = append(si.Sources, &structs.SourceIntention{Name: src,
			Action: pick(t, "ixnaction", []structs.IntentionAction{structs.IntentionActionAllow, structs.IntentionActionDeny})})
	}
	if len(si.Sources) == 0 {
		return w.DrawOp(t, C06Cfg)
	}
	if err := si.Normalize(); err != nil {
		t.Skip("intentions entry does not normalise: " + err.Error())
	}
	if err := si.Validate(); err != nil {
		return w.DrawOp(t, C06Cfg)
	}
	return NewConfig(ConfigSet, w.NextIdx(t), structs.ConfigEntryUpsert, si)
}

// DrawC06Tags aims at tag-filtered lookups: several instances of one service on different nodes with different tag
// sets; instances are re-registered with other tags, and tagged instances are deregistered while others remain.
func (w *World) DrawC06Tags(t *rapid.T) *Op {
	svc := pick(t, "tagsvc", []string{"web", "web", "web", "db", "db", "api"})
	want := map[string][]string{"web": {"a"}, "db": {"b"}, "api": {"a", "b"}}[svc] // the tag filter the panel uses for svc
	_, sns, _ := w.Store.ServiceNodes(nil, svc, nil, "")
	var matching, others structs.ServiceNodes
	for _, sn := range sns {
		all := true
		for _, tg := range want {
			has := false
			for _, x := range sn.ServiceTags {
				has = has || x == tg
			}
			all = all && has
		}
		if all {
			matching = append(matching, sn)
		} else {
			others = append(others, sn)
		}
	}
	nonMatching := [][]string{nil, {"c"}}
	if len(want) == 1 {
		nonMatching = append(nonMatching, []string{map[string]string{"a": "b", "b": "a"}[want[0]]})
	} else {
		nonMatching = append(nonMatching, []string{"a"}, []string{"b"})
	}
	register := func(tags []string) *Op {
		used := map[string]bool{}
		for _, sn := range sns {
			used[sn.Node] = true
		}
		node := pick(t, "tagnode", Nodes)
		for _, n := range Nodes { // prefer a node that has no instance of svc yet
			if !used[n] && chance(t, "freenode", 70) {
				node = n
				break
			}
		}
		req := w.c06RegReq(node)
		req.Service = &structs.NodeService{Service: svc, ID: svc + "-" + pick(t, "taginst", []string{"1", "1", "2"}), Port: 8080, Tags: tags,
			Weights: &structs.Weights{Passing: 1, Warning: 1}, EnterpriseMeta: defaultEM}
		return NewRegister(w.NextIdx(t), req)
	}
	switch {
	case len(matching) == 0:
		return register(want)
	case len(others) == 0:
		return register(pick(t, "nonmatching", nonMatching))
	case chance(t, "emptymatch", 70):
		// take the tag away from (or deregister) a matching instance: with one matching instance left the filtered
		// lookup becomes empty while the service lives on
		sn := pick(t, "matching", matching)
		if chance(t, "viadereg", 40) {
			return NewDereg(DeregService, w.NextIdx(t), sn.Node, sn.ServiceID, "")
		}
		req := w.c06RegReq(sn.Node)
		ns := sn.ToNodeService()
		ns.RaftIndex = structs.RaftIndex{}
		ns.Tags = pick(t, "nonmatching", nonMatching)
		req.Service = ns
		return NewRegister(w.NextIdx(t), req)
	case chance(t, "more", 50):
		return register(pick(t, "tagset", [][]string{nil, {"a"}, {"b"}, {"a", "b"}}))
	}
	sn := pick(t, "retagother", others)
	req := w.c06RegReq(sn.Node)
	ns := sn.ToNodeService()
	ns.RaftIndex = structs.RaftIndex{}
	ns.Tags = want
	req.Service = ns
	return NewRegister(w.NextIdx(t), req)
}

// DrawC06SessionCheck aims at checks of type "session": such a check follows the sessions of its node that carry
// its Definition.SessionName (passing while one is in force, critical when it ends).
func (w *World) DrawC06SessionCheck(t *rapid.T) *Op {
	ns := w.LiveNodes("")
	if len(ns) == 0 {
		return w.DrawOp(t, C06Cfg)
	}
	n := pick(t, "scnode", ns)
	var sessChecks structs.HealthChecks
	for _, c := range w.NodeChecks(n.Node, "") {
		if c.Type == "session" && c.Definition.SessionName != "" {
			sessChecks = append(sessChecks, c)
		}
	}
	_, sessions, _ := w.Store.NodeSessions(nil, n.Node, nil)
	k := rapid.IntRange(0, 9).Draw(t, "scop")
	switch {
	case k <= 2 || len(sessChecks) == 0: // register a session-type check (node level or on a service of the node)
		id := pick(t, "sccheck", []string{"c1", "c2", "c3"})
		c := &structs.HealthCheck{Node: n.Node, CheckID: types.CheckID(id), Name: id, Type: "session", Status: api.HealthCritical, EnterpriseMeta: defaultEM}
		c.Definition.SessionName = pick(t, "scname", []string{"sa", "sa", "sb"})
		if svcs := w.NodeServices(n.Node, ""); len(svcs) > 0 && chance(t, "scsvc", 50) {
			sv := pick(t, "scsvcpick", svcs)
			c.ServiceID, c.ServiceName = sv.ID, sv.Service
		}
		req := w.c06RegReq(n.Node)
		req.Checks = structs.HealthChecks{c}
		return NewRegister(w.NextIdx(t), req)
	case k <= 6 || len(sessions) == 0: // a session with the name one of the checks follows
		id, ok := w.freshSessionID(t)
		if !ok {
			return w.DrawOp(t, C06Cfg)
		}
		w.SessUsed[id] = true
		sess := &structs.Session{ID: id, Node: n.Node, Name: pick(t, "scfollow", sessChecks).Definition.SessionName,
			Behavior: pick(t, "scbehavior", []structs.SessionBehavior{structs.SessionKeysRelease, structs.SessionKeysDelete}), EnterpriseMeta: defaultEM}
		return NewSessCreate(w.NextIdx(t), sess)
	}
	// end a session of the node (named ones first)
	var named structs.Sessions
	for _, s := range sessions {
		if s.Name != "" {
			named = append(named, s)
		}
	}
	if len(named) == 0 {
		named = sessions
	}
	return NewSessDestroy(w.NextIdx(t), pick(t, "scend", named).ID)
}

// ---- peering writes (C06 only): ops outside the shared vocabulary. The request is carried as protobuf bytes in
// Payload.CE and executed by C06Apply through the Store methods the FSM handlers call.

const (
	C06PeeringWrite      = "c06/peering-write"
	C06PeeringTerminate  = "c06/peering-terminate"
	C06PeeringDelete     = "c06/peering-delete"
	C06TrustBundleWrite  = "c06/trust-bundle-write"
	C06TrustBundleDelete = "c06/trust-bundle-delete"
	C06CARootsSet        = "c06/ca-roots-set"
	C06CAConfigSet       = "c06/ca-config-set"
)

// c06CAReq is the body of the two CA kinds (msgpack in Payload.CE): the arguments of CARootSetCAS / CACheckAndSetConfig.
type c06CAReq struct {
	CIdx   uint64
	Roots  []*structs.CARoot
	Config *structs.CAConfiguration
}

func newC06CA(kind string, idx uint64, req *c06CAReq, desc string) *Op {
	var buf bytes.Buffer
	if err := codec.NewEncoder(&buf, structs.MsgpackHandle).Encode(req); err != nil {
		panic(fmt.Sprintf("verifstate: cannot encode %s: %v", kind, err))
	}
	return (&Op{Kind: kind, Idx: idx, Desc: desc, P: &Payload{CE: buf.Bytes()}}).Seal()
}

// NewC06CARootsSet replaces the CA roots (CAOpSetRoots): ids lists the root IDs, the first one is the active root.
func NewC06CARootsSet(idx, cidx uint64, ids []string) *Op {
	var rs []*structs.CARoot
	for i, id := range ids {
		rs = append(rs, &structs.CARoot{ID: id, Name: "root " + id, RootCert: "cert-" + id + "\n", SigningKeyID: "key-" + id, Active: i == 0})
	}
	return newC06CA(C06CARootsSet, idx, &c06CAReq{CIdx: cidx, Roots: rs}, fmt.Sprintf("ca-roots-set cas=%d roots=%v", cidx, ids))
}

// NewC06CAConfigSet rewrites the CA configuration (CAOpSetConfig with a ModifyIndex); the cluster ID never changes.
func NewC06CAConfigSet(idx, cidx uint64, ttl string) *Op {
	cfg := &structs.CAConfiguration{Provider: "consul", ClusterID: "11111111-2222-3333-4444-555555555555", Config: map[string]interface{}{"LeafCertTTL": ttl}}
	return newC06CA(C06CAConfigSet, idx, &c06CAReq{CIdx: cidx, Config: cfg}, fmt.Sprintf("ca-config-set cas=%d ttl=%s", cidx, ttl))
}

// DrawC06CA draws a root rotation or a CA configuration update, with the current index most of the time.
func (w *World) DrawC06CA(t *rapid.T) *Op {
	if chance(t, "caroots", 65) {
		cidx, _, _ := w.Store.CARoots(nil)
		if chance(t, "castale", 15) && cidx > 0 {
			cidx--
		}
		ids := pick(t, "rootset", [][]string{{"r1"}, {"r2", "r1"}, {"r2"}, {"r1", "r2"}, {"r3", "r2", "r1"}, {"r3"}})
		return NewC06CARootsSet(w.NextIdx(t), cidx, ids)
	}
	cidx, _, _ := w.Store.CAConfig(nil)
	if chance(t, "cfgstale", 15) && cidx > 0 {
		cidx--
	}
	return NewC06CAConfigSet(w.NextIdx(t), cidx, pick(t, "leafttl", []string{"72h", "24h", "1h"}))
}

// C06PeerIDs are the fixed peering IDs of the two peer names.
var C06PeerIDs = map[string]string{"peerA": "2a000000-0000-4000-8000-00000000000a", "peerB": "2a000000-0000-4000-8000-00000000000b"}

func newC06Proto(kind string, idx uint64, m proto.Message, desc string) *Op {
	b, err := proto.Marshal(m)
	if err != nil {
		panic(fmt.Sprintf("verifstate: cannot encode %s: %v", kind, err))
	}
	return (&Op{Kind: kind, Idx: idx, Desc: desc, P: &Payload{CE: b}}).Seal()
}

// C06Apply executes the C06-only kinds and hands everything else to Apply.
func C06Apply(s *state.Store, o *Op) Result {
	done := func(err error) Result { return Result{OK: err == nil, Err: err} }
	dec := func(m proto.Message) {
		if err := proto.Unmarshal(o.Fresh().CE, m); err != nil {
			panic(fmt.Sprintf("verifstate: cannot decode %s: %v", o.Kind, err))
		}
	}
	switch o.Kind {
	case C06PeeringWrite:
		var req pbpeering.PeeringWriteRequest
		dec(&req)
		return done(s.PeeringWrite(o.Idx, &req))
	case C06PeeringTerminate:
		var req pbpeering.PeeringTerminateByIDRequest
		dec(&req)
		return done(s.PeeringTerminateByID(o.Idx, req.ID))
	case C06PeeringDelete:
		var req pbpeering.PeeringDeleteRequest
		dec(&req)
		return done(s.PeeringDelete(o.Idx, state.Query{Value: req.Name, EnterpriseMeta: *structs.NodeEnterpriseMetaInPartition(req.Partition)}))
	case C06TrustBundleWrite:
		var req pbpeering.PeeringTrustBundleWriteRequest
		dec(&req)
		return done(s.PeeringTrustBundleWrite(o.Idx, req.PeeringTrustBundle))
	case C06CARootsSet, C06CAConfigSet:
		var req c06CAReq
		if err := codec.NewDecoder(bytes.NewReader(o.Fresh().CE), structs.MsgpackHandle).Decode(&req); err != nil {
			panic(fmt.Sprintf("verifstate: cannot decode %s: %v", o.Kind, err))
		}
		if o.Kind == C06CARootsSet {
			ok, err := s.CARootSetCAS(o.Idx, req.CIdx, req.Roots)
			return Result{OK: ok, Err: err}
		}
		ok, err := s.CACheckAndSetConfig(o.Idx, req.CIdx, req.Config)
		return Result{OK: ok, Err: err}
	case C06TrustBundleDelete:
		var req pbpeering.PeeringTrustBundleDeleteRequest
		dec(&req)
		return done(s.PeeringTrustBundleDelete(o.Idx, state.Query{Value: req.Name, EnterpriseMeta: *structs.NodeEnterpriseMetaInPartition(req.Partition)}))
	}
	return Apply(s, o)
}

// NewC06PeeringWrite and friends build the peering ops (also used by the fixed witnesses).
func NewC06PeeringWrite(idx uint64, p *pbpeering.Peering) *Op {
	return newC06Proto(C06PeeringWrite, idx, &pbpeering.PeeringWriteRequest{Peering: p},
		fmt.Sprintf("peering-write %s id=%s state=%s meta=%v deleted=%v", p.Name, short(p.ID), p.State, p.Meta, p.DeletedAt != nil))
}

func NewC06PeeringTerminate(idx uint64, id string) *Op {
	return newC06Proto(C06PeeringTerminate, idx, &pbpeering.PeeringTerminateByIDRequest{ID: id}, "peering-terminate "+short(id))
}

func NewC06PeeringDelete(idx uint64, name string) *Op {
	return newC06Proto(C06PeeringDelete, idx, &pbpeering.PeeringDeleteRequest{Name: name}, "peering-delete "+name)
}

func NewC06TrustBundleWrite(idx uint64, name, pem string) *Op {
	tb := &pbpeering.PeeringTrustBundle{TrustDomain: name + ".consul", PeerName: name, RootPEMs: []string{pem}}
	return newC06Proto(C06TrustBundleWrite, idx, &pbpeering.PeeringTrustBundleWriteRequest{PeeringTrustBundle: tb}, fmt.Sprintf("trust-bundle-write %s pem=%q", name, pem))
}

func NewC06TrustBundleDelete(idx uint64, name string) *Op {
	return newC06Proto(C06TrustBundleDelete, idx, &pbpeering.PeeringTrustBundleDeleteRequest{Name: name}, "trust-bundle-delete "+name)
}

// DrawC06Peering draws the writes of the peering service, the stream handlers and the leader's cleanup as direct
// store calls: create (accepting side), metadata / state updates, mark for deletion, terminate by ID, final delete,
// trust bundle write / delete. Requests are shaped as the peering service shapes them before raft apply.
func (w *World) DrawC06Peering(t *rapid.T) *Op {
	if chance(t, "exported", 22) {
		return w.DrawC06Exported(t)
	}
	name := pick(t, "peername", []string{"peerA", "peerA", "peerB"})
	_, cur, _ := w.Store.PeeringRead(nil, state.Query{Value: name})
	clone := func() *pbpeering.Peering {
		return &pbpeering.Peering{ID: cur.ID, Name: cur.Name, Meta: cur.Meta, State: cur.State, PeerID: cur.PeerID, PeerCAPems: cur.PeerCAPems,
			PeerServerName: cur.PeerServerName, PeerServerAddresses: cur.PeerServerAddresses, Remote: cur.Remote, ManualServerAddresses: cur.ManualServerAddresses}
	}
	if cur != nil && cur.State != pbpeering.PeeringState_DELETING && chance(t, "trustbundle", 35) {
		if _, tb, _ := w.Store.PeeringTrustBundleRead(nil, state.Query{Value: name}); tb != nil && chance(t, "tbdelete", 25) {
			return NewC06TrustBundleDelete(w.NextIdx(t), name)
		}
		return NewC06TrustBundleWrite(w.NextIdx(t), name, pick(t, "tbpem", []string{"pem-1\n", "pem-2\n", "pem-3\n"}))
	}
	k := rapid.IntRange(0, 11).Draw(t, "peerop")
	switch {
	case cur == nil && k <= 8:
		p := &pbpeering.Peering{ID: C06PeerIDs[name], Name: name}
		if chance(t, "peermeta", 30) {
			p.Meta = map[string]string{"env": "x"}
		}
		return NewC06PeeringWrite(w.NextIdx(t), p)
	case cur == nil || k <= 1: // trust bundle (refused without a peering)
		return NewC06TrustBundleWrite(w.NextIdx(t), name, pick(t, "tbpem", []string{"pem-1\n", "pem-2\n"}))
	case k == 2:
		return NewC06TrustBundleDelete(w.NextIdx(t), name)
	case k <= 4: // state update by the stream handlers
		p := clone()
		p.State = pick(t, "peerstate", []pbpeering.PeeringState{pbpeering.PeeringState_ACTIVE, pbpeering.PeeringState_FAILING, pbpeering.PeeringState_TERMINATED})
		if cur.State == pbpeering.PeeringState_DELETING && p.State != pbpeering.PeeringState_TERMINATED {
			p.State = pbpeering.PeeringState_DELETING
			p.DeletedAt = cur.DeletedAt
		}
		return NewC06PeeringWrite(w.NextIdx(t), p)
	case k == 5: // metadata update (GenerateToken on an existing peering)
		p := clone()
		p.Meta = map[string]string{"env": pick(t, "peerenv", []string{"x", "y"})}
		if cur.State == pbpeering.PeeringState_DELETING {
			p.DeletedAt = cur.DeletedAt
		}
		return NewC06PeeringWrite(w.NextIdx(t), p)
	case k <= 7: // terminate by ID (the peer told us it is gone)
		return NewC06PeeringTerminate(w.NextIdx(t), cur.ID)
	case k <= 9: // mark for deletion (PeeringDelete RPC)
		idx := w.NextIdx(t)
		p := &pbpeering.Peering{ID: cur.ID, Name: cur.Name, State: pbpeering.PeeringState_DELETING, ManualServerAddresses: cur.ManualServerAddresses,
			PeerServerAddresses: cur.PeerServerAddresses, DeletedAt: timestamppb.New(time.Unix(1700000000+int64(idx), 0).UTC())}
		return NewC06PeeringWrite(idx, p)
	}
	return NewC06PeeringDelete(w.NextIdx(t), name) // final delete by the leader's cleanup routine
}

// DrawC06NodeMeta registers an existing node again with another node metadata (rack r1 / r2 / none) and nothing
// else: lookups filtered by node metadata change without any service or check being written.
func (w *World) DrawC06NodeMeta(t *rapid.T) *Op {
	ns := w.LiveNodes("")
	if len(ns) == 0 {
		return w.DrawOp(t, C06Cfg)
	}
	n := pick(t, "metanode", ns)
	req := w.c06RegReq(n.Node)
	switch pick(t, "rack", []string{"r1", "r1", "r2", ""}) {
	case "r1":
		req.NodeMeta = map[string]string{"rack": "r1"}
	case "r2":
		req.NodeMeta = map[string]string{"rack": "r2"}
	default:
		req.NodeMeta = nil
	}
	return NewRegister(w.NextIdx(t), req)
}


// DrawC06Exported writes, rewrites or deletes the exported-services entry of the default partition (what the exported
// service lists and the per-service peering / trust bundle lookups are computed from).
func (w *World) DrawC06Exported(t *rapid.T) *Op {
	ex := &structs.ExportedServicesConfigEntry{Name: "default"}
	_, cur, _ := w.Store.ConfigEntry(nil, structs.ExportedServices, "default", nil)
	if cur != nil && chance(t, "exdelete", 25) {
		return NewConfig(ConfigDelete, w.NextIdx(t), structs.ConfigEntryDelete, ex)
	}
	n := rapid.IntRange(1, 3).Draw(t, "nexported")
	for i := 0; i < n; i++ {
		nm := pick(t, "exsvc", []string{"web", "web", "db", "api", "*"})
		dup := false
		for _, s := range ex.Services {
			dup = dup || s.Name == nm
		}
		if dup {
			continue
		}
		cons := []structs.ServiceConsumer{{Peer: pick(t, "expeer", []string{"peerA", "peerA", "peerB"})}}
		if chance(t, "exboth", 25) {
			cons = []structs.ServiceConsumer{{Peer: "peerA"}, {Peer: "peerB"}}
		}
		ex.Services = append(ex.Services, structs.ExportedService{Name: nm, Consumers: cons})
	}
	if err := ex.Normalize(); err != nil {
		t.Skip("exported-services entry does not normalise: " + err.Error())
	}
	if err := ex.Validate(); err != nil {
		return w.DrawOp(t, C06Cfg)
	}
	return NewConfig(ConfigSet, w.NextIdx(t), structs.ConfigEntryUpsert, ex)
}
