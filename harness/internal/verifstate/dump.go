//go:build verif

package verifstate

import (
	"encoding/hex"
	"encoding/json"
	"fmt"
	"reflect"
	"sort"
	"strings"
	"time"

	"google.golang.org/protobuf/encoding/protojson"
	"google.golang.org/protobuf/proto"

	"github.com/hashicorp/consul/agent/consul/state"
)

// Dump is a canonical rendering of every memdb table: table -> sorted canonical JSON rows.
type Dump map[string][]string

// TakeDump walks all tables of the store (index table included).
func TakeDump(s *state.Store) Dump {
	d := Dump{}
	err := s.WalkAllTables(func(table string, item interface{}) bool {
		d[table] = append(d[table], CanonJSON(item))
		return true
	})
	if err != nil {
		panic(fmt.Sprintf("verifstate: WalkAllTables: %v", err))
	}
	for t := range d {
		sort.Strings(d[t])
	}
	return d
}

// CanonJSON renders a value canonically: all exported struct fields (json tags and custom marshalers are
// ignored so that fields hidden from the HTTP API are still compared), maps with sorted keys, pointers
// dereferenced, []byte as hex, times as RFC3339Nano UTC, protobuf messages through protojson.
func CanonJSON(v interface{}) string {
	g := canon(reflect.ValueOf(v), 0)
	b, err := json.Marshal(g)
	if err != nil {
		return fmt.Sprintf("%T:%+v", v, v)
	}
	return string(b)
}

var (
	timeType  = reflect.TypeOf(time.Time{})
	protoType = reflect.TypeOf((*proto.Message)(nil)).Elem()
)

func canon(v reflect.Value, depth int) interface{} {
	if !v.IsValid() {
		return nil
	}
	if depth > 40 {
		return "<depth>"
	}
	t := v.Type()
	if t.Implements(protoType) && (v.Kind() != reflect.Ptr || !v.IsNil()) {
		if m, ok := v.Interface().(proto.Message); ok {
			b, err := protojson.MarshalOptions{EmitUnpopulated: false}.Marshal(m)
			if err == nil {
				var g interface{}
				if json.Unmarshal(b, &g) == nil {
					return g
				}
			}
		}
	}
	switch v.Kind() {
	case reflect.Ptr, reflect.Interface:
		if v.IsNil() {
			return nil
		}
		return canon(v.Elem(), depth+1)
	case reflect.Struct:
		if t == timeType {
			tm := v.Interface().(time.Time)
			if tm.IsZero() {
				return "0"
			}
			return tm.UTC().Format(time.RFC3339Nano)
		}
		out := map[string]interface{}{}
		for i := 0; i < t.NumField(); i++ {
			f := t.Field(i)
			if f.PkgPath != "" { // unexported
				continue
			}
			fv := canon(v.Field(i), depth+1)
			if f.Anonymous {
				if m, ok := fv.(map[string]interface{}); ok {
					for k, x := range m {
						if _, dup := out[k]; !dup {
							out[k] = x
						}
					}
					continue
				}
			}
			out[f.Name] = fv
		}
		return out
	case reflect.Map:
		if v.IsNil() || v.Len() == 0 {
			return nil
		}
		out := map[string]interface{}{}
		for _, k := range v.MapKeys() {
			var ks string
			if k.Kind() == reflect.String {
				ks = k.String()
			} else {
				b, _ := json.Marshal(canon(k, depth+1))
				ks = string(b)
			}
			out[ks] = canon(v.MapIndex(k), depth+1)
		}
		return out
	case reflect.Slice:
		if v.IsNil() || v.Len() == 0 {
			return nil
		}
		if t.Elem().Kind() == reflect.Uint8 {
			return "0x" + hex.EncodeToString(v.Bytes())
		}
		fallthrough
	case reflect.Array:
		out := make([]interface{}, v.Len())
		for i := range out {
			out[i] = canon(v.Index(i), depth+1)
		}
		return out
	case reflect.String:
		return v.String()
	case reflect.Bool:
		return v.Bool()
	case reflect.Int, reflect.Int8, reflect.Int16, reflect.Int32, reflect.Int64:
		return v.Int()
	case reflect.Uint, reflect.Uint8, reflect.Uint16, reflect.Uint32, reflect.Uint64, reflect.Uintptr:
		return v.Uint()
	case reflect.Float32, reflect.Float64:
		return v.Float()
	case reflect.Func, reflect.Chan, reflect.UnsafePointer:
		return nil
	}
	return fmt.Sprintf("%v", v.Interface())
}

// Rows decodes the rows of a table into generic maps.
func (d Dump) Rows(table string) []map[string]interface{} {
	var out []map[string]interface{}
	for _, r := range d[table] {
		var m map[string]interface{}
		if err := json.Unmarshal([]byte(r), &m); err != nil {
			m = map[string]interface{}{"_raw": r}
		}
		out = append(out, m)
	}
	return out
}

// Diff describes one difference between two dumps.
type Diff struct {
	Table string
	Key   string // identifying fields of the row
	Field string // first differing field path, "+row" (only in b) or "-row" (only in a)
	A, B  string
}

func (d Diff) String() string {
	return fmt.Sprintf("table=%s key=%s field=%s\n   a: %s\n   b: %s", d.Table, d.Key, d.Field, d.A, d.B)
}

// Signature is a root-cause-ish key for a diff: table + field path (row identity left out).
func (d Diff) Signature() string { return "table=" + d.Table + "/field=" + d.Field }

var keyFields = []string{"Key", "ID", "Node", "ServiceID", "CheckID", "PeerName", "Peer", "Kind", "Name", "Gateway", "Service", "Upstream", "Downstream", "Session", "AccessorID", "IP", "Segment"}

func rowKey(m map[string]interface{}) string {
	var parts []string
	for _, k := range keyFields {
		if v, ok := m[k]; ok {
			switch vv := v.(type) {
			case string:
				if vv != "" {
					parts = append(parts, k+"="+vv)
				}
			case map[string]interface{}:
				parts = append(parts, k+"="+CanonJSON(vv))
			}
		}
	}
	return strings.Join(parts, ",")
}

// DiffDumps lists the differences between a and b, restricted to tables accepted by keep (nil = all).
func DiffDumps(a, b Dump, keep func(table string) bool) []Diff {
	tables := map[string]bool{}
	for t := range a {
		tables[t] = true
	}
	for t := range b {
		tables[t] = true
	}
	var names []string
	for t := range tables {
		if keep == nil || keep(t) {
			names = append(names, t)
		}
	}
	sort.Strings(names)
	var out []Diff
	for _, t := range names {
		ra, rb := a[t], b[t]
		if reflect.DeepEqual(ra, rb) || (len(ra) == 0 && len(rb) == 0) {
			continue
		}
		// multiset difference
		cnt := map[string]int{}
		for _, r := range ra {
			cnt[r]++
		}
		var onlyB []string
		for _, r := range rb {
			if cnt[r] > 0 {
				cnt[r]--
			} else {
				onlyB = append(onlyB, r)
			}
		}
		var onlyA []string
		for _, r := range ra {
			if cnt[r] > 0 {
				cnt[r]--
				onlyA = append(onlyA, r)
			}
		}
		// pair by key
		parse := func(rows []string) map[string][]string {
			m := map[string][]string{}
			for _, r := range rows {
				var g map[string]interface{}
				_ = json.Unmarshal([]byte(r), &g)
				k := rowKey(g)
				m[k] = append(m[k], r)
			}
			return m
		}
		ma, mb := parse(onlyA), parse(onlyB)
		keys := map[string]bool{}
		for k := range ma {
			keys[k] = true
		}
		for k := range mb {
			keys[k] = true
		}
		var ks []string
		for k := range keys {
			ks = append(ks, k)
		}
		sort.Strings(ks)
		for _, k := range ks {
			la, lb := ma[k], mb[k]
			n := len(la)
			if len(lb) > n {
				n = len(lb)
			}
			for i := 0; i < n; i++ {
				switch {
				case i >= len(la):
					out = append(out, Diff{Table: t, Key: k, Field: "+row", B: lb[i]})
				case i >= len(lb):
					out = append(out, Diff{Table: t, Key: k, Field: "-row", A: la[i]})
				default:
					out = append(out, Diff{Table: t, Key: k, Field: firstDiffPath(la[i], lb[i]), A: la[i], B: lb[i]})
				}
			}
		}
	}
	return out
}

func firstDiffPath(a, b string) string {
	var ga, gb interface{}
	_ = json.Unmarshal([]byte(a), &ga)
	_ = json.Unmarshal([]byte(b), &gb)
	return diffPath("", ga, gb)
}

func diffPath(prefix string, a, b interface{}) string {
	ma, oka := a.(map[string]interface{})
	mb, okb := b.(map[string]interface{})
	if oka && okb {
		keys := map[string]bool{}
		for k := range ma {
			keys[k] = true
		}
		for k := range mb {
			keys[k] = true
		}
		var ks []string
		for k := range keys {
			ks = append(ks, k)
		}
		sort.Strings(ks)
		for _, k := range ks {
			if !reflect.DeepEqual(ma[k], mb[k]) {
				p := k
				if prefix != "" {
					p = prefix + "." + k
				}
				return diffPath(p, ma[k], mb[k])
			}
		}
	}
	if prefix == "" {
		return "?"
	}
	return prefix
}

// Equal reports whether two dumps are identical on the tables accepted by keep.
func DumpsEqual(a, b Dump, keep func(string) bool) bool {
	return len(DiffDumps(a, b, keep)) == 0
}

// IndexTable returns the index table as a map key -> value.
func (d Dump) IndexTable() map[string]uint64 {
	out := map[string]uint64{}
	for _, m := range d.Rows("index") {
		k, _ := m["Key"].(string)
		v, _ := m["Value"].(float64)
		out[k] = uint64(v)
	}
	return out
}


// ParseRow decodes one canonical row.
func ParseRow(r string) map[string]interface{} {
	var m map[string]interface{}
	_ = json.Unmarshal([]byte(r), &m)
	return m
}
