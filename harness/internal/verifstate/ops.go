//go:build verif

// Package verifstate is the shared operation vocabulary of the /verif state-store harnesses: concrete,
// replayable write operations against consul's state.Store (only through its exported API), a canonical
// dump of all memdb tables, a small KV/session reference model and rapid generators over a deliberately tiny
// name universe. It is injected by build overlay (never stored in /repo).
package verifstate

import (
	"bytes"
	"encoding/base64"
	"fmt"
	"sort"
	"strings"

	"github.com/hashicorp/consul-net-rpc/go-msgpack/codec"
	"github.com/hashicorp/consul/acl"
	"github.com/hashicorp/consul/agent/consul/state"
	"github.com/hashicorp/consul/agent/structs"
	"github.com/hashicorp/consul/api"
	"github.com/hashicorp/consul/lib"
	"github.com/hashicorp/consul/types"
)

// Op kinds.
const (
	KVSet        = "kv-set"
	KVCAS        = "kv-cas"
	KVDelete     = "kv-delete"
	KVDeleteCAS  = "kv-delete-cas"
	KVDeleteTree = "kv-delete-tree"
	KVLock       = "kv-lock"
	KVUnlock     = "kv-unlock"
	SessCreate   = "sess-create"
	SessDestroy  = "sess-destroy"
	Reap         = "reap"
	Register     = "register"
	DeregNode    = "dereg-node"
	DeregService = "dereg-service"
	DeregCheck   = "dereg-check"
	Txn          = "txn"
	TxnRO        = "txn-ro"
	PQSet        = "pq-set"
	PQDelete     = "pq-delete"
	ConfigSet    = "config-set"
	ConfigDelete = "config-delete"
	CoordUpdate  = "coord-update"
	SysMetaSet   = "sysmeta-set"
)

// Payload is the msgpack-encoded body of an op (exact request structs as the FSM would see them).
type Payload struct {
	KV       *structs.DirEntry         `codec:",omitempty"`
	CASIndex uint64                    `codec:",omitempty"` // delete-cas: expected index
	Sess     *structs.Session          `codec:",omitempty"`
	SessID   string                    `codec:",omitempty"`
	ReapIdx  uint64                    `codec:",omitempty"`
	Reg      *structs.RegisterRequest  `codec:",omitempty"`
	Node     string                    `codec:",omitempty"`
	ServiceID string                   `codec:",omitempty"`
	CheckID  string                    `codec:",omitempty"`
	Peer     string                    `codec:",omitempty"`
	Txn      structs.TxnOps            `codec:",omitempty"`
	PQ       *structs.PreparedQuery    `codec:",omitempty"`
	PQID     string                    `codec:",omitempty"`
	CE       []byte                    `codec:",omitempty"` // ConfigEntryRequest.MarshalBinary
	Coords   structs.Coordinates       `codec:",omitempty"`
	SysMeta  *structs.SystemMetadataEntry `codec:",omitempty"`
}

// Op is one concrete write (or read-only txn) with everything needed to re-execute it.
type Op struct {
	Kind string `json:"kind"`
	Idx  uint64 `json:"idx"`
	Desc string `json:"desc"`
	MP   string `json:"mp"`

	P *Payload `json:"-"`
}

// Seal encodes the payload; call after building P and before recording/executing.
func (o *Op) Seal() *Op {
	var buf bytes.Buffer
	if err := codec.NewEncoder(&buf, structs.MsgpackHandle).Encode(o.P); err != nil {
		panic(fmt.Sprintf("verifstate: cannot encode payload of %s: %v", o.Kind, err))
	}
	o.MP = base64.StdEncoding.EncodeToString(buf.Bytes())
	if o.Desc == "" {
		o.Desc = o.describe()
	}
	return o
}

// Fresh returns a deep copy of the payload (ops are executed on copies: the store mutates its arguments).
func (o *Op) Fresh() *Payload {
	b, err := base64.StdEncoding.DecodeString(o.MP)
	if err != nil {
		panic(err)
	}
	var p Payload
	if err := codec.NewDecoder(bytes.NewReader(b), structs.MsgpackHandle).Decode(&p); err != nil {
		panic(fmt.Sprintf("verifstate: cannot decode payload of %s: %v", o.Kind, err))
	}
	return &p
}

// Load restores P after JSON decoding of a replay file.
func (o *Op) Load() *Op { o.P = o.Fresh(); return o }

// ConfigEntry decodes the config entry request of a config-* op.
func (p *Payload) ConfigEntry() *structs.ConfigEntryRequest {
	var req structs.ConfigEntryRequest
	if err := req.UnmarshalBinary(p.CE); err != nil {
		panic(fmt.Sprintf("verifstate: config entry decode: %v", err))
	}
	return &req
}

func (o *Op) describe() string {
	p := o.P
	switch o.Kind {
	case KVSet, KVCAS, KVLock, KVUnlock:
		return fmt.Sprintf("%s %q v=%q flags=%d cas=%d sess=%s", o.Kind, p.KV.Key, shortBytes(p.KV.Value), p.KV.Flags, p.KV.ModifyIndex, short(p.KV.Session))
	case KVDelete, KVDeleteTree:
		return fmt.Sprintf("%s %q", o.Kind, p.KV.Key)
	case KVDeleteCAS:
		return fmt.Sprintf("%s %q cas=%d", o.Kind, p.KV.Key, p.CASIndex)
	case SessCreate:
		return fmt.Sprintf("%s %s node=%s behavior=%s checks=%v name=%q", o.Kind, short(p.Sess.ID), p.Sess.Node, p.Sess.Behavior, p.Sess.CheckIDs(), p.Sess.Name)
	case SessDestroy:
		return fmt.Sprintf("%s %s", o.Kind, short(p.SessID))
	case Reap:
		return fmt.Sprintf("reap <= %d", p.ReapIdx)
	case Register:
		return "register " + DescribeReg(p.Reg)
	case DeregNode:
		return fmt.Sprintf("dereg-node %s peer=%q", p.Node, p.Peer)
	case DeregService:
		return fmt.Sprintf("dereg-service %s/%s peer=%q", p.Node, p.ServiceID, p.Peer)
	case DeregCheck:
		return fmt.Sprintf("dereg-check %s/%s peer=%q", p.Node, p.CheckID, p.Peer)
	case Txn, TxnRO:
		var parts []string
		for _, t := range p.Txn {
			parts = append(parts, DescribeTxnOp(t))
		}
		return o.Kind + " [" + strings.Join(parts, "; ") + "]"
	case PQSet:
		return fmt.Sprintf("pq-set %s name=%q sess=%s svc=%s", short(p.PQ.ID), p.PQ.Name, short(p.PQ.Session), p.PQ.Service.Service)
	case PQDelete:
		return fmt.Sprintf("pq-delete %s", short(p.PQID))
	case ConfigSet, ConfigDelete:
		r := p.ConfigEntry()
		return fmt.Sprintf("%s op=%s %s/%s %s", o.Kind, r.Op, r.Entry.GetKind(), r.Entry.GetName(), describeCE(r.Entry))
	case CoordUpdate:
		var parts []string
		for _, c := range p.Coords {
			parts = append(parts, c.Node+"/"+c.Segment)
		}
		return "coord-update " + strings.Join(parts, ",")
	case SysMetaSet:
		return fmt.Sprintf("sysmeta-set %s=%s", p.SysMeta.Key, p.SysMeta.Value)
	}
	return o.Kind
}

func short(s string) string {
	if len(s) > 8 {
		return s[:8]
	}
	return s
}

func shortBytes(b []byte) string {
	if len(b) > 12 {
		return string(b[:12]) + "…"
	}
	return string(b)
}

func describeCE(e structs.ConfigEntry) string {
	switch c := e.(type) {
	case *structs.IngressGatewayConfigEntry:
		var names []string
		for _, l := range c.Listeners {
			for _, s := range l.Services {
				names = append(names, fmt.Sprintf("%d:%s", l.Port, s.Name))
			}
		}
		return "listeners=" + strings.Join(names, ",")
	case *structs.TerminatingGatewayConfigEntry:
		var names []string
		for _, s := range c.Services {
			names = append(names, s.Name)
		}
		return "services=" + strings.Join(names, ",")
	case *structs.ServiceConfigEntry:
		d := ""
		if c.Destination != nil {
			d = fmt.Sprintf(" dest=%v:%d", c.Destination.Addresses, c.Destination.Port)
		}
		return "protocol=" + c.Protocol + d
	case *structs.ServiceResolverConfigEntry:
		if c.Redirect != nil {
			return "redirect=" + c.Redirect.Service
		}
		return "resolver"
	case *structs.ServiceIntentionsConfigEntry:
		var s []string
		for _, src := range c.Sources {
			s = append(s, fmt.Sprintf("%s%s:%s", src.Peer, src.Name, src.Action))
		}
		return "sources=" + strings.Join(s, ",")
	}
	return ""
}

// DescribeReg renders a register request compactly.
func DescribeReg(r *structs.RegisterRequest) string {
	var b strings.Builder
	fmt.Fprintf(&b, "node=%s id=%s addr=%s peer=%q", r.Node, short(string(r.ID)), r.Address, r.PeerName)
	if r.SkipNodeUpdate {
		b.WriteString(" skipnode")
	}
	if len(r.NodeMeta) > 0 {
		fmt.Fprintf(&b, " meta=%v", r.NodeMeta)
	}
	if s := r.Service; s != nil {
		fmt.Fprintf(&b, " svc{%s id=%s kind=%q port=%d tags=%v", s.Service, s.ID, s.Kind, s.Port, s.Tags)
		if s.Kind == structs.ServiceKindConnectProxy {
			fmt.Fprintf(&b, " dest=%s ups=%d", s.Proxy.DestinationServiceName, len(s.Proxy.Upstreams))
		}
		if s.Connect.Native {
			b.WriteString(" native")
		}
		b.WriteString("}")
	}
	cs := r.Checks
	if r.Check != nil {
		cs = append(structs.HealthChecks{r.Check}, cs...)
	}
	for _, c := range cs {
		fmt.Fprintf(&b, " chk{%s svc=%s st=%s type=%q}", c.CheckID, c.ServiceID, c.Status, c.Type)
	}
	return b.String()
}

// DescribeTxnOp renders one txn op.
func DescribeTxnOp(t *structs.TxnOp) string {
	switch {
	case t.KV != nil:
		return fmt.Sprintf("kv:%s %q idx=%d sess=%s", t.KV.Verb, t.KV.DirEnt.Key, t.KV.DirEnt.ModifyIndex, short(t.KV.DirEnt.Session))
	case t.Node != nil:
		return fmt.Sprintf("node:%s %s id=%s idx=%d", t.Node.Verb, t.Node.Node.Node, short(string(t.Node.Node.ID)), t.Node.Node.ModifyIndex)
	case t.Service != nil:
		return fmt.Sprintf("service:%s %s/%s idx=%d", t.Service.Verb, t.Service.Node, t.Service.Service.ID, t.Service.Service.ModifyIndex)
	case t.Check != nil:
		return fmt.Sprintf("check:%s %s/%s st=%s idx=%d", t.Check.Verb, t.Check.Check.Node, t.Check.Check.CheckID, t.Check.Check.Status, t.Check.Check.ModifyIndex)
	case t.Session != nil:
		return fmt.Sprintf("session:%s %s", t.Session.Verb, short(t.Session.Session.ID))
	}
	return "?"
}

// Result is what executing an op returned.
type Result struct {
	OK      bool // boolean verdict of CAS/lock style ops; true for plain ops that returned no error
	Err     error
	Results structs.TxnResults
	Errors  structs.TxnErrors
}

func (r Result) String() string {
	if len(r.Errors) > 0 {
		var s []string
		for _, e := range r.Errors {
			s = append(s, fmt.Sprintf("#%d:%s", e.OpIndex, e.What))
		}
		return "txn-errors[" + strings.Join(s, "; ") + "]"
	}
	if r.Err != nil {
		return "err:" + r.Err.Error()
	}
	return fmt.Sprintf("ok=%v results=%d", r.OK, len(r.Results))
}

// Apply executes the op against the store through the same Store methods the FSM handlers use.
func Apply(s *state.Store, o *Op) Result {
	p := o.Fresh()
	idx := o.Idx
	switch o.Kind {
	case KVSet:
		err := s.KVSSet(idx, p.KV)
		return Result{OK: err == nil, Err: err}
	case KVCAS:
		ok, err := s.KVSSetCAS(idx, p.KV)
		return Result{OK: ok, Err: err}
	case KVDelete:
		err := s.KVSDelete(idx, p.KV.Key, &p.KV.EnterpriseMeta)
		return Result{OK: err == nil, Err: err}
	case KVDeleteCAS:
		ok, err := s.KVSDeleteCAS(idx, p.CASIndex, p.KV.Key, &p.KV.EnterpriseMeta)
		return Result{OK: ok, Err: err}
	case KVDeleteTree:
		err := s.KVSDeleteTree(idx, p.KV.Key, &p.KV.EnterpriseMeta)
		return Result{OK: err == nil, Err: err}
	case KVLock:
		ok, err := s.KVSLock(idx, p.KV)
		return Result{OK: ok, Err: err}
	case KVUnlock:
		ok, err := s.KVSUnlock(idx, p.KV)
		return Result{OK: ok, Err: err}
	case SessCreate:
		err := s.SessionCreate(idx, p.Sess)
		return Result{OK: err == nil, Err: err}
	case SessDestroy:
		err := s.SessionDestroy(idx, p.SessID, nil)
		return Result{OK: err == nil, Err: err}
	case Reap:
		err := s.ReapTombstones(idx, p.ReapIdx)
		return Result{OK: err == nil, Err: err}
	case Register:
		err := s.EnsureRegistration(idx, p.Reg)
		return Result{OK: err == nil, Err: err}
	case DeregNode:
		err := s.DeleteNode(idx, p.Node, nil, p.Peer)
		return Result{OK: err == nil, Err: err}
	case DeregService:
		err := s.DeleteService(idx, p.Node, p.ServiceID, nil, p.Peer)
		return Result{OK: err == nil, Err: err}
	case DeregCheck:
		err := s.DeleteCheck(idx, p.Node, types.CheckID(p.CheckID), nil, p.Peer)
		return Result{OK: err == nil, Err: err}
	case Txn:
		res, errs := s.TxnRW(idx, p.Txn)
		return Result{OK: len(errs) == 0, Results: res, Errors: errs}
	case TxnRO:
		res, errs := s.TxnRO(p.Txn)
		return Result{OK: len(errs) == 0, Results: res, Errors: errs}
	case PQSet:
		err := s.PreparedQuerySet(idx, p.PQ)
		return Result{OK: err == nil, Err: err}
	case PQDelete:
		err := s.PreparedQueryDelete(idx, p.PQID)
		return Result{OK: err == nil, Err: err}
	case ConfigSet:
		req := p.ConfigEntry()
		switch req.Op {
		case structs.ConfigEntryUpsertCAS:
			ok, err := s.EnsureConfigEntryCAS(idx, req.Entry.GetRaftIndex().ModifyIndex, req.Entry)
			return Result{OK: ok, Err: err}
		default:
			err := s.EnsureConfigEntry(idx, req.Entry)
			return Result{OK: err == nil, Err: err}
		}
	case ConfigDelete:
		req := p.ConfigEntry()
		switch req.Op {
		case structs.ConfigEntryDeleteCAS:
			ok, err := s.DeleteConfigEntryCAS(idx, req.Entry.GetRaftIndex().ModifyIndex, req.Entry)
			return Result{OK: ok, Err: err}
		default:
			err := s.DeleteConfigEntry(idx, req.Entry.GetKind(), req.Entry.GetName(), req.Entry.GetEnterpriseMeta())
			return Result{OK: err == nil, Err: err}
		}
	case CoordUpdate:
		err := s.CoordinateBatchUpdate(idx, p.Coords)
		return Result{OK: err == nil, Err: err}
	case SysMetaSet:
		err := s.SystemMetadataSet(idx, p.SysMeta)
		return Result{OK: err == nil, Err: err}
	}
	panic("verifstate: unknown op kind " + o.Kind)
}

// ---- small constructors

var defaultEM = *structs.DefaultEnterpriseMetaInDefaultPartition()

func NewKV(kind string, idx uint64, key string, value []byte, flags uint64, cas uint64, session string) *Op {
	e := &structs.DirEntry{Key: key, Value: value, Flags: flags, Session: session, EnterpriseMeta: defaultEM}
	p := &Payload{KV: e}
	switch kind {
	case KVCAS:
		e.ModifyIndex = cas
	case KVDeleteCAS:
		p.CASIndex = cas
	}
	return (&Op{Kind: kind, Idx: idx, P: p}).Seal()
}

func NewSessCreate(idx uint64, sess *structs.Session) *Op {
	return (&Op{Kind: SessCreate, Idx: idx, P: &Payload{Sess: sess}}).Seal()
}

func NewSessDestroy(idx uint64, id string) *Op {
	return (&Op{Kind: SessDestroy, Idx: idx, P: &Payload{SessID: id}}).Seal()
}

func NewReap(idx, upTo uint64) *Op {
	return (&Op{Kind: Reap, Idx: idx, P: &Payload{ReapIdx: upTo}}).Seal()
}

func NewRegister(idx uint64, req *structs.RegisterRequest) *Op {
	return (&Op{Kind: Register, Idx: idx, P: &Payload{Reg: req}}).Seal()
}

func NewDereg(kind string, idx uint64, node, id, peer string) *Op {
	p := &Payload{Node: node, Peer: peer}
	switch kind {
	case DeregService:
		p.ServiceID = id
	case DeregCheck:
		p.CheckID = id
	}
	return (&Op{Kind: kind, Idx: idx, P: p}).Seal()
}

func NewTxn(idx uint64, ops structs.TxnOps) *Op {
	return (&Op{Kind: Txn, Idx: idx, P: &Payload{Txn: ops}}).Seal()
}

func NewTxnRO(idx uint64, ops structs.TxnOps) *Op {
	return (&Op{Kind: TxnRO, Idx: idx, P: &Payload{Txn: ops}}).Seal()
}

func NewPQSet(idx uint64, q *structs.PreparedQuery) *Op {
	return (&Op{Kind: PQSet, Idx: idx, P: &Payload{PQ: q}}).Seal()
}

func NewPQDelete(idx uint64, id string) *Op {
	return (&Op{Kind: PQDelete, Idx: idx, P: &Payload{PQID: id}}).Seal()
}

func NewConfig(kind string, idx uint64, op structs.ConfigEntryOp, e structs.ConfigEntry) *Op {
	req := &structs.ConfigEntryRequest{Op: op, Entry: e}
	b, err := req.MarshalBinary()
	if err != nil {
		panic(fmt.Sprintf("verifstate: config entry encode: %v", err))
	}
	return (&Op{Kind: kind, Idx: idx, P: &Payload{CE: b}}).Seal()
}

func NewCoords(idx uint64, cs structs.Coordinates) *Op {
	return (&Op{Kind: CoordUpdate, Idx: idx, P: &Payload{Coords: cs}}).Seal()
}

func NewSysMeta(idx uint64, k, v string) *Op {
	return (&Op{Kind: SysMetaSet, Idx: idx, P: &Payload{SysMeta: &structs.SystemMetadataEntry{Key: k, Value: v}}}).Seal()
}

// IsKVVerbWrite reports whether a txn KV verb writes.
func IsKVVerbWrite(v api.KVOp) bool {
	switch v {
	case api.KVGet, api.KVGetOrEmpty, api.KVGetTree, api.KVCheckSession, api.KVCheckIndex, api.KVCheckNotExists:
		return false
	}
	return true
}

var (
	_ = acl.EnterpriseMeta{}
	_ = lib.AbsInt
	_ = sort.Strings
)
