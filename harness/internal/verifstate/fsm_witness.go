//go:build verif

package verifstate

// Small constructors for fixed histories (witnesses of recorded findings, regression replays).

import (
	"fmt"

	"github.com/hashicorp/consul/agent/consul/state"
	"github.com/hashicorp/consul/agent/structs"
	"github.com/hashicorp/consul/proto/private/pbpeering"
	"github.com/hashicorp/consul/types"
)

func WSysMeta(idx uint64, k, v string) *FCmd {
	req := &structs.SystemMetadataRequest{Datacenter: fsmDC, Op: structs.SystemMetadataUpsert, Entry: &structs.SystemMetadataEntry{Key: k, Value: v}}
	return NewFCmd("sysmeta/upsert", "sysmeta", structs.SystemMetadataRequestType, idx, req, fmt.Sprintf("sysmeta %s=%s", k, v))
}

func mustFromOp(o *Op) *FCmd {
	c, err := FromOp(o)
	if err != nil {
		panic(err)
	}
	return c
}

func WKVSet(idx uint64, key, val string) *FCmd {
	return mustFromOp(NewKV(KVSet, idx, key, []byte(val), 0, 0, ""))
}

// WService builds a plain or sidecar-proxy service instance.
func WService(name, id string, proxyFor string, tags []string, upstreams ...string) *structs.NodeService {
	s := &structs.NodeService{Service: name, ID: id, Port: 8080, Tags: tags, Weights: &structs.Weights{Passing: 1, Warning: 1}, EnterpriseMeta: defaultEM}
	if proxyFor != "" {
		s.Kind = structs.ServiceKindConnectProxy
		s.Port = 20000
		s.Proxy = structs.ConnectProxyConfig{DestinationServiceName: proxyFor}
		for i, u := range upstreams {
			s.Proxy.Upstreams = append(s.Proxy.Upstreams, structs.Upstream{DestinationType: structs.UpstreamDestTypeService, DestinationName: u, LocalBindPort: 9000 + i})
		}
	}
	return s
}

func WRegister(idx uint64, node, peer string, svc *structs.NodeService, checks ...*structs.HealthCheck) *FCmd {
	req := &structs.RegisterRequest{Datacenter: fsmDC, Node: node, ID: NodeIDs[node], Address: "10.0.0." + node[1:], PeerName: peer, Service: svc, EnterpriseMeta: defaultEM}
	if svc != nil {
		svc.PeerName = peer
	}
	for _, c := range checks {
		c.Node, c.PeerName = node, peer
		req.Checks = append(req.Checks, c)
	}
	return mustFromOp(NewRegister(idx, req))
}

func WCheck(id, svcID, svcName, status string) *structs.HealthCheck {
	return &structs.HealthCheck{CheckID: types.CheckID(id), Name: id, ServiceID: svcID, ServiceName: svcName, Status: status, EnterpriseMeta: defaultEM}
}

func WDeregNode(idx uint64, node, peer string) *FCmd {
	return mustFromOp(NewDereg(DeregNode, idx, node, "", peer))
}

func WConfig(idx uint64, e structs.ConfigEntry) *FCmd {
	return mustFromOp(NewConfig(ConfigSet, idx, structs.ConfigEntryUpsert, e))
}

func WManualVIP(idx uint64, svc string, ips ...string) *FCmd {
	req := state.ServiceVirtualIP{Service: structs.PeeredServiceName{ServiceName: structs.NewServiceName(svc, &defaultEM)}, ManualIPs: ips}
	c := NewFCmd("vip/assign-manual", "vip", structs.UpdateVirtualIPRequestType, idx, req, fmt.Sprintf("manual-vips %s <- %v", svc, ips))
	c.RMW, c.Multi = true, true
	return c
}

func WPeeringGenerateToken(idx uint64, id, name, secret string) *FCmd {
	req := &pbpeering.PeeringWriteRequest{Peering: &pbpeering.Peering{ID: id, Name: name}, SecretsRequest: &pbpeering.SecretsWriteRequest{PeerID: id,
		Request: &pbpeering.SecretsWriteRequest_GenerateToken{GenerateToken: &pbpeering.SecretsWriteRequest_GenerateTokenRequest{EstablishmentSecret: secret}}}}
	return NewFCmdProto("peering/generate-token", "peering", structs.PeeringWriteType, idx, req, fmt.Sprintf("peering generate-token %s id=%s", name, short(id)))
}

func WCASetConfig(idx uint64) *FCmd {
	req := &structs.CARequest{Op: structs.CAOpSetConfig, Datacenter: fsmDC, Config: &structs.CAConfiguration{ClusterID: "11111111-2222-3333-4444-555555555555", Provider: "consul",
		Config: map[string]interface{}{"LeafCertTTL": "72h"}}}
	return NewFCmd("ca/set-config", "ca", structs.ConnectCARequestType, idx, req, "ca set-config provider=consul")
}
