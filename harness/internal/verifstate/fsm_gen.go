//go:build verif

package verifstate

// Generators for whole raft logs (C01/C02): the shared World generator for the families it already covers
// (mapped onto raft entries by FromOp) plus the command families only the FSM sees: ACL tokens/policies/roles/
// binding rules/auth methods, legacy intentions and intention mutations, CA operations, CA leaf index, autopilot,
// feature gates, federation states, peerings, manual virtual IPs, resource operations, the removed legacy ACL
// command. Every request is shaped as the leader-side code shapes it before raftApply: IDs minted, hashes set,
// times stamped from the LEADER's clock (FWorld.Clock, a drawn deterministic clock unrelated to the replicas').
//
// Maps inside generated requests hold at most one entry so that the encoded bytes do not depend on Go's map
// iteration order (the bytes are the command; they are recorded verbatim in replay files anyway).

import (
	"fmt"
	"sort"
	"strings"
	"time"

	"google.golang.org/protobuf/types/known/timestamppb"
	"pgregory.net/rapid"

	"github.com/hashicorp/consul/acl"
	"github.com/hashicorp/consul/agent/consul/state"
	"github.com/hashicorp/consul/agent/structs"
	"github.com/hashicorp/consul/api"
	"github.com/hashicorp/consul/proto-public/pbresource"
	"github.com/hashicorp/consul/proto/private/pbpeering"
	"github.com/hashicorp/consul/proto/private/pbstorage"
	"github.com/hashicorp/consul/types"
)

// FCfg weights the command families of a log.
type FCfg struct {
	Base, ACL, Intention, CA, Autopilot, FedState, FeatureGate, Peering, ManualVIP, DeprecatedACL, Resource, SysMeta, TxnExtra, ConfigExtra, BoundSession, LockDelay int
	BaseCfg                                                                                                                 *Cfg
}

// Focused returns a copy of the mix with one family boosted: logs concentrate on one subsystem often enough to reach
// its deeper states (several services owning manual VIPs, tokens linked to roles linked to policies, peerings with secrets …).
func (c *FCfg) Focused(focus string) *FCfg {
	out := *c
	switch focus {
	case "vip":
		out.ManualVIP *= 9
	case "acl":
		out.ACL *= 4
	case "peering":
		out.Peering *= 5
	case "intention":
		out.Intention *= 5
	case "ca":
		out.CA *= 5
	case "catalog":
		out.Base *= 3
	case "lockdelay":
		out.LockDelay *= 14
	case "session": // sessions bound to checks, and the ways such sessions end (check turns critical / is deleted, node goes away …)
		b := *c.BaseCfg
		b.Session, b.Killer, b.KV, b.Catalog = 22, 24, 22, 30
		out.BaseCfg = &b
		out.Base *= 3
	}
	return &out
}

// Focuses lists the focus names ("" = the plain mix).
var Focuses = []string{"", "", "vip", "vip", "acl", "peering", "intention", "ca", "catalog", "session", "lockdelay", "lockdelay"}

// DefaultFCfg is the mix used by C01 and C02.
func DefaultFCfg() *FCfg {
	return &FCfg{
		Base: 46, ACL: 15, Intention: 7, CA: 6, Autopilot: 2, FedState: 3, FeatureGate: 2, Peering: 8, ManualVIP: 6, DeprecatedACL: 1, Resource: 3, SysMeta: 3, TxnExtra: 2, ConfigExtra: 4, BoundSession: 3, LockDelay: 3,
		BaseCfg: &Cfg{KV: 22, Session: 8, Reap: 2, Catalog: 28, Dereg: 8, Txn: 10, PQ: 4, Config: 12, Coord: 3, SysMeta: 2, Killer: 3,
			TxnCatalog: true, Peers: true, Connect: true, Rename: true, SessionChecks: true, MaxTxnOps: 4},
	}
}

// FWorld is the generator state for whole logs. Store is replica A's (or the reference replica's) state store: the
// generator peeks at it to aim its choices; it is not part of any oracle.
type FWorld struct {
	*World
	Clock    time.Time      // leader clock used for stamps carried in commands
	minted   map[string]int // per-class counters of minted UUIDs
	Resource func() []*pbresource.Resource
	delayed  []string // keys force-released from a session that carried a lock-delay (generator aim only)
}

// NewFWorld wraps a store getter result. The store handle must be refreshed by the caller if the FSM swaps it.
func NewFWorld(s *state.Store) *FWorld {
	return &FWorld{World: NewWorld(s), Clock: time.Date(2000, 1, 1, 0, 0, 0, 0, time.UTC), minted: map[string]int{}}
}

const mintCap = 6

// mint returns a never-used UUID of a class (the leader generates IDs with lib.GenerateUUID and a uniqueness check).
func (w *FWorld) mint(class string) (string, bool) {
	n := w.minted[class]
	if n >= mintCap {
		return "", false
	}
	w.minted[class] = n + 1
	return fmt.Sprintf("%s00000-0000-4000-8000-%012d", class, n+1), true
}

func (w *FWorld) tick(t *rapid.T) time.Time {
	w.Clock = w.Clock.Add(time.Duration(rapid.IntRange(0, 3000).Draw(t, "tickms")) * time.Millisecond)
	return w.Clock
}

// DrawCmd draws the next log entry.
func (w *FWorld) DrawCmd(t *rapid.T, cfg *FCfg) *FCmd {
	type fam struct {
		w int
		f func() *FCmd
	}
	fams := []fam{
		{cfg.Base, func() *FCmd { return w.drawBase(t, cfg.BaseCfg) }},
		{cfg.ACL, func() *FCmd { return w.DrawACL(t) }},
		{cfg.Intention, func() *FCmd { return w.DrawIntention(t) }},
		{cfg.CA, func() *FCmd { return w.DrawCA(t) }},
		{cfg.Autopilot, func() *FCmd { return w.DrawAutopilot(t) }},
		{cfg.FedState, func() *FCmd { return w.DrawFedState(t) }},
		{cfg.FeatureGate, func() *FCmd { return w.DrawFeatureGate(t) }},
		{cfg.Peering, func() *FCmd { return w.DrawPeering(t) }},
		{cfg.ManualVIP, func() *FCmd { return w.DrawManualVIP(t) }},
		{cfg.DeprecatedACL, func() *FCmd { return w.DrawDeprecatedACL(t) }},
		{cfg.Resource, func() *FCmd { return w.DrawResource(t) }},
		{cfg.SysMeta, func() *FCmd { return w.DrawSysMetaCmd(t) }},
		{cfg.TxnExtra, func() *FCmd { return w.DrawTxnExtra(t) }},
		{cfg.ConfigExtra, func() *FCmd { return w.DrawConfigExtra(t) }},
		{cfg.BoundSession, func() *FCmd { return w.DrawBoundSession(t) }},
		{cfg.LockDelay, func() *FCmd { return w.DrawLockDelay(t) }},
	}
	total := 0
	for _, f := range fams {
		total += f.w
	}
	x := rapid.IntRange(0, total-1).Draw(t, "cmdfamily")
	for _, f := range fams {
		if x < f.w {
			if c := f.f(); c != nil {
				return c
			}
			break
		}
		x -= f.w
	}
	return w.drawBase(t, cfg.BaseCfg)
}

// drawBase draws from the shared World generator and maps the op onto its raft entry; requests the endpoint would
// refuse are redrawn (they are not commands).
func (w *FWorld) drawBase(t *rapid.T, cfg *Cfg) *FCmd {
	for i := 0; i < 6; i++ {
		op := w.DrawOp(t, cfg)
		if op.Kind == TxnRO {
			continue
		}
		if op.Kind == PQSet {
			if _, q, _ := w.Store.PreparedQueryGet(nil, op.P.PQ.ID); q == nil {
				op.P.PQID = "create"
				op.Seal()
			}
		}
		c, err := FromOp(op)
		if err != nil {
			continue
		}
		return c
	}
	op := NewKV(KVSet, w.NextIdx(t), "a", []byte("fallback"), 0, 0, "")
	c, _ := FromOp(op)
	return c
}

// ---- system metadata (the leader's own flags: virtual IPs, intention format) incl. deletes

func (w *FWorld) DrawSysMetaCmd(t *rapid.T) *FCmd {
	key := pick(t, "smkey", []string{structs.SystemMetadataVirtualIPsEnabled, structs.SystemMetadataVirtualIPsEnabled, structs.SystemMetadataTermGatewayVirtualIPsEnabled,
		structs.SystemMetadataIntentionFormatKey, structs.SystemMetadataIntentionFormatKey, structs.ServerManagementTokenAccessorID})
	val := "true"
	switch key {
	case structs.SystemMetadataIntentionFormatKey:
		val = pick(t, "smfmt", []string{structs.SystemMetadataIntentionFormatConfigValue, structs.SystemMetadataIntentionFormatConfigValue, structs.SystemMetadataIntentionFormatLegacyValue})
	case structs.ServerManagementTokenAccessorID:
		val = pick(t, "smtok", []string{"e7000000-0000-4000-8000-000000000001", "e7000000-0000-4000-8000-000000000002"})
	}
	if chance(t, "smdelete", 12) {
		req := &structs.SystemMetadataRequest{Datacenter: fsmDC, Op: structs.SystemMetadataDelete, Entry: &structs.SystemMetadataEntry{Key: key}}
		c := NewFCmd("sysmeta/delete", "sysmeta", structs.SystemMetadataRequestType, w.NextIdx(t), req, "sysmeta delete "+key)
		c.RMW = true
		return c
	}
	req := &structs.SystemMetadataRequest{Datacenter: fsmDC, Op: structs.SystemMetadataUpsert, Entry: &structs.SystemMetadataEntry{Key: key, Value: val}}
	return NewFCmd("sysmeta/upsert", "sysmeta", structs.SystemMetadataRequestType, w.NextIdx(t), req, fmt.Sprintf("sysmeta %s=%s", key, val))
}

// Prelude returns the commands a freshly elected leader appends before serving (drawn subset): the virtual-IP
// flags and the intention format marker.
func (w *FWorld) Prelude(t *rapid.T) []*FCmd {
	var out []*FCmd
	add := func(k, v string) {
		req := &structs.SystemMetadataRequest{Datacenter: fsmDC, Op: structs.SystemMetadataUpsert, Entry: &structs.SystemMetadataEntry{Key: k, Value: v}}
		out = append(out, NewFCmd("sysmeta/upsert", "sysmeta", structs.SystemMetadataRequestType, w.NextIdx(t), req, fmt.Sprintf("sysmeta %s=%s", k, v)))
	}
	if chance(t, "previps", 75) {
		add(structs.SystemMetadataVirtualIPsEnabled, "true")
	}
	if chance(t, "pretgw", 50) {
		add(structs.SystemMetadataTermGatewayVirtualIPsEnabled, "true")
	}
	if chance(t, "preixn", 65) {
		add(structs.SystemMetadataIntentionFormatKey, structs.SystemMetadataIntentionFormatConfigValue)
	}
	if chance(t, "preacl", 60) { // ACL initialisation: builtin policies
		var ps structs.ACLPolicies
		for _, id := range []string{structs.ACLPolicyGlobalManagementID, structs.ACLPolicyGlobalReadOnlyID} {
			bp := structs.ACLBuiltinPolicies[id]
			bp.EnterpriseMeta = defaultEM
			bp.SetHash(true)
			ps = append(ps, &bp)
		}
		for _, p := range ps {
			out = append(out, NewFCmd("acl/policy-set", "acl", structs.ACLPolicySetRequestType, w.NextIdx(t), &structs.ACLPolicyBatchSetRequest{Policies: structs.ACLPolicies{p}}, "policy-set builtin "+p.Name))
		}
	}
	return out
}

// ---- ACL

var (
	aclPolicyNames = []string{"pol-a", "pol-b", "pol-c"}
	aclRoleNames   = []string{"role-a", "role-b"}
	aclMethodNames = []string{"am-1", "am-2"}
	aclRules       = []string{"", `key_prefix "" { policy = "read" }`, `service "web" { policy = "write" }`, `node_prefix "" { policy = "write" }`}
)

func (w *FWorld) policies() structs.ACLPolicies {
	_, ps, _ := w.Store.ACLPolicyList(nil, nil)
	return ps
}
func (w *FWorld) roles() structs.ACLRoles {
	_, rs, _ := w.Store.ACLRoleList(nil, "", nil)
	return rs
}
func (w *FWorld) tokens() structs.ACLTokens {
	_, ts, _ := w.Store.ACLTokenList(nil, true, true, "", "", "", nil, nil)
	return ts
}
func (w *FWorld) rules() structs.ACLBindingRules {
	_, rs, _ := w.Store.ACLBindingRuleList(nil, "", nil)
	return rs
}
func (w *FWorld) methods() structs.ACLAuthMethods {
	_, ms, _ := w.Store.ACLAuthMethodList(nil, nil)
	return ms
}

const ghostID = "99999999-9999-4999-8999-999999999999"

// DrawACL draws one ACL command.
func (w *FWorld) DrawACL(t *rapid.T) *FCmd {
	switch rapid.IntRange(0, 19).Draw(t, "aclkind") {
	case 0, 1, 2:
		return w.drawPolicySet(t)
	case 3:
		return w.drawPolicyDelete(t)
	case 4, 5:
		return w.drawRoleSet(t)
	case 6:
		return w.drawRoleDelete(t)
	case 7, 8, 9, 10:
		return w.drawTokenSet(t)
	case 11, 12:
		return w.drawTokenDelete(t)
	case 13:
		return w.drawBootstrap(t)
	case 14, 15:
		return w.drawAuthMethodSet(t)
	case 16:
		return w.drawAuthMethodDelete(t)
	case 17, 18:
		return w.drawBindingRuleSet(t)
	default:
		return w.drawBindingRuleDelete(t)
	}
}

func (w *FWorld) drawPolicySet(t *rapid.T) *FCmd {
	existing := w.policies()
	n := pick(t, "npol", []int{1, 1, 1, 2, 3})
	var batch structs.ACLPolicies
	var desc []string
	for i := 0; i < n; i++ {
		var p *structs.ACLPolicy
		switch k := rapid.IntRange(0, 9).Draw(t, "polshape"); {
		case k == 0: // the leader writes the builtin global-management policy at startup
			bp := structs.ACLBuiltinPolicies[structs.ACLPolicyGlobalManagementID]
			p = &bp
		case k <= 4 && len(existing) > 0: // update (maybe rename)
			e := pick(t, "polupd", existing)
			p = &structs.ACLPolicy{ID: e.ID, Name: e.Name, Description: e.Description, Rules: pick(t, "polrules", aclRules)}
			if chance(t, "polrename", 25) {
				p.Name = pick(t, "polname", aclPolicyNames)
			}
			if _, builtin := structs.ACLBuiltinPolicies[e.ID]; builtin { // the endpoint refuses rule/datacenter changes of builtin policies
				p.Rules = e.Rules
			}
		default:
			id, ok := w.mint("b0a")
			if !ok {
				if len(existing) == 0 {
					return nil
				}
				id = pick(t, "polupd2", existing).ID
			}
			p = &structs.ACLPolicy{ID: id, Name: pick(t, "polname", aclPolicyNames), Rules: pick(t, "polrules", aclRules)}
		}
		if chance(t, "poldesc", 30) {
			p.Description = pick(t, "poldescv", []string{"d1", "d2"})
		}
		if _, builtin := structs.ACLBuiltinPolicies[p.ID]; !builtin && chance(t, "poldcs", 20) {
			p.Datacenters = []string{"dc1"}
		}
		p.EnterpriseMeta = defaultEM
		p.SetHash(true)
		dup := false
		for _, b := range batch {
			dup = dup || b.ID == p.ID
		}
		if dup {
			continue
		}
		batch = append(batch, p)
		desc = append(desc, short(p.ID)+"="+p.Name)
	}
	c := NewFCmd("acl/policy-set", "acl", structs.ACLPolicySetRequestType, w.NextIdx(t), &structs.ACLPolicyBatchSetRequest{Policies: batch}, "policy-set "+strings.Join(desc, ","))
	c.Multi = len(batch) > 1
	return c
}

func (w *FWorld) drawPolicyDelete(t *rapid.T) *FCmd {
	existing := w.policies()
	var ids []string
	n := pick(t, "npoldel", []int{1, 1, 2})
	for i := 0; i < n; i++ {
		id := ghostID
		if len(existing) > 0 && chance(t, "poldellive", 85) {
			id = pick(t, "poldel", existing).ID
		}
		if _, builtin := structs.ACLBuiltinPolicies[id]; builtin {
			continue // the endpoint refuses to delete builtin policies
		}
		ids = append(ids, id)
	}
	if len(ids) == 0 {
		return nil
	}
	c := NewFCmd("acl/policy-delete", "acl", structs.ACLPolicyDeleteRequestType, w.NextIdx(t), &structs.ACLPolicyBatchDeleteRequest{PolicyIDs: ids}, "policy-delete "+shortAll(ids))
	c.RMW, c.Multi = true, true // tokens and roles linking the policy are read through it
	return c
}

func shortAll(ids []string) string {
	var out []string
	for _, id := range ids {
		out = append(out, short(id))
	}
	return strings.Join(out, ",")
}

func (w *FWorld) drawPolicyLinks(t *rapid.T) []string {
	existing := w.policies()
	var out []string
	n := rapid.IntRange(0, 2).Draw(t, "nlinks")
	for i := 0; i < n; i++ {
		id := ghostID // a link to a policy deleted between the endpoint's check and the append
		if len(existing) > 0 && chance(t, "linklive", 94) {
			id = pick(t, "link", existing).ID
		}
		dup := false
		for _, o := range out {
			dup = dup || o == id
		}
		if !dup {
			out = append(out, id)
		}
	}
	return out
}

func (w *FWorld) drawIdentities(t *rapid.T) (structs.ACLServiceIdentities, structs.ACLNodeIdentities) {
	var s structs.ACLServiceIdentities
	var n structs.ACLNodeIdentities
	if chance(t, "svcident", 25) {
		s = append(s, &structs.ACLServiceIdentity{ServiceName: pick(t, "identsvc", ServiceNames)})
	}
	if chance(t, "nodeident", 15) {
		n = append(n, &structs.ACLNodeIdentity{NodeName: pick(t, "identnode", Nodes), Datacenter: "dc1"})
	}
	return s, n
}

func (w *FWorld) drawRoleSet(t *rapid.T) *FCmd {
	existing := w.roles()
	var r *structs.ACLRole
	if len(existing) > 0 && chance(t, "roleupd", 45) {
		e := pick(t, "roleupdpick", existing)
		r = &structs.ACLRole{ID: e.ID, Name: e.Name}
		if chance(t, "rolerename", 25) {
			r.Name = pick(t, "rolename", aclRoleNames)
		}
	} else {
		id, ok := w.mint("c0a")
		if !ok {
			return nil
		}
		r = &structs.ACLRole{ID: id, Name: pick(t, "rolename", aclRoleNames)}
	}
	for _, id := range w.drawPolicyLinks(t) {
		r.Policies = append(r.Policies, structs.ACLRolePolicyLink{ID: id})
	}
	r.ServiceIdentities, r.NodeIdentities = w.drawIdentities(t)
	r.EnterpriseMeta = defaultEM
	r.SetHash(true)
	req := &structs.ACLRoleBatchSetRequest{Roles: structs.ACLRoles{r}, AllowMissingLinks: chance(t, "roleallowmissing", 25)}
	return NewFCmd("acl/role-set", "acl", structs.ACLRoleSetRequestType, w.NextIdx(t), req, fmt.Sprintf("role-set %s=%s pols=%d", short(r.ID), r.Name, len(r.Policies)))
}

func (w *FWorld) drawRoleDelete(t *rapid.T) *FCmd {
	existing := w.roles()
	id := ghostID
	if len(existing) > 0 && chance(t, "roledellive", 85) {
		id = pick(t, "roledel", existing).ID
	}
	c := NewFCmd("acl/role-delete", "acl", structs.ACLRoleDeleteRequestType, w.NextIdx(t), &structs.ACLRoleBatchDeleteRequest{RoleIDs: []string{id}}, "role-delete "+short(id))
	c.RMW = true
	return c
}

func (w *FWorld) newToken(t *rapid.T) *structs.ACLToken {
	acc, ok := w.mint("d0a")
	if !ok {
		return nil
	}
	sec, _ := w.mint("e0a")
	tok := &structs.ACLToken{AccessorID: acc, SecretID: sec, Description: pick(t, "tokdesc", []string{"", "t1", "t2"}), Local: chance(t, "toklocal", 30),
		CreateTime: w.tick(t), EnterpriseMeta: defaultEM}
	if chance(t, "tokexp", 55) {
		exp := tok.CreateTime.Add(time.Duration(rapid.IntRange(1, 24).Draw(t, "tokttl")) * time.Hour)
		tok.ExpirationTime = &exp
	}
	return tok
}

func (w *FWorld) drawTokenSet(t *rapid.T) *FCmd {
	existing := w.tokens()
	opts := structs.ACLTokenBatchSetRequest{}
	n := pick(t, "ntok", []int{1, 1, 1, 2})
	var desc []string
	fresh := map[string]bool{}
	for i := 0; i < n; i++ {
		var tok *structs.ACLToken
		switch k := rapid.IntRange(0, 11).Draw(t, "tokshape"); {
		case k == 0: // the leader inserts the anonymous token
			tok = &structs.ACLToken{AccessorID: acl.AnonymousTokenID, SecretID: "anonymous", Description: "Anonymous Token", CreateTime: w.tick(t), EnterpriseMeta: defaultEM}
			for _, e := range existing {
				if e.AccessorID == acl.AnonymousTokenID {
					tok.CreateTime = e.CreateTime
				}
			}
		case k <= 4 && len(existing) > 0: // update: accessor, secret, locality, auth method, expiry and create time are carried over by the endpoint
			e := pick(t, "tokupd", existing)
			tok = &structs.ACLToken{AccessorID: e.AccessorID, SecretID: e.SecretID, Local: e.Local, AuthMethod: e.AuthMethod, ExpirationTime: e.ExpirationTime,
				CreateTime: e.CreateTime, Description: pick(t, "tokdesc", []string{"", "t1", "t2"}), EnterpriseMeta: defaultEM}
			if chance(t, "tokbadsecret", 6) { // lost race: refused by the state store
				tok.SecretID = "e0b00000-0000-4000-8000-000000000999"
			}
		default:
			tok = w.newToken(t)
			if tok == nil {
				if len(existing) == 0 {
					return nil
				}
				continue
			}
			fresh[tok.AccessorID] = true
		}
		if tok.AccessorID != acl.AnonymousTokenID {
			for _, id := range w.drawPolicyLinks(t) {
				tok.Policies = append(tok.Policies, structs.ACLTokenPolicyLink{ID: id})
			}
			if rs := w.roles(); chance(t, "tokrole", 30) {
				id := ghostID
				if len(rs) > 0 && chance(t, "tokrolelive", 92) {
					id = pick(t, "tokrolepick", rs).ID
				}
				tok.Roles = append(tok.Roles, structs.ACLTokenRoleLink{ID: id})
			}
			tok.ServiceIdentities, tok.NodeIdentities = w.drawIdentities(t)
		}
		dup := false
		for _, b := range opts.Tokens {
			dup = dup || b.AccessorID == tok.AccessorID
		}
		if dup {
			continue
		}
		tok.SetHash(true)
		opts.Tokens = append(opts.Tokens, tok)
		desc = append(desc, short(tok.AccessorID))
	}
	if len(opts.Tokens) == 0 {
		return nil
	}
	mode := rapid.IntRange(0, 9).Draw(t, "tokmode")
	if mode == 0 && len(w.methods()) == 0 && chance(t, "loginneedsmethod", 80) {
		mode = 9
	}
	switch mode {
	case 0: // login: token bound to an auth method
		ms := w.methods()
		name := "am-ghost"
		if len(ms) > 0 && chance(t, "loginlive", 85) {
			name = pick(t, "loginmethod", ms).Name
		}
		for _, tok := range opts.Tokens {
			if fresh[tok.AccessorID] {
				tok.AuthMethod = name
				tok.SetHash(true)
			}
		}
		opts.AllowMissingLinks, opts.ProhibitUnprivileged = true, true
	case 1: // replication batch (the replicator only ever sees global tokens)
		allGlobal := true
		for _, tok := range opts.Tokens {
			if fresh[tok.AccessorID] {
				tok.Local = false
				tok.SetHash(true)
			}
			allGlobal = allGlobal && !tok.Local
		}
		if allGlobal {
			opts.AllowMissingLinks, opts.FromReplication = true, true
		}
	case 2:
		opts.CAS = true
		for _, tok := range opts.Tokens {
			for _, e := range existing {
				if e.AccessorID == tok.AccessorID {
					tok.ModifyIndex = pick(t, "tokcas", []uint64{e.ModifyIndex, e.ModifyIndex, e.ModifyIndex + 1, 0})
				}
			}
		}
	}
	c := NewFCmd("acl/token-set", "acl", structs.ACLTokenSetRequestType, w.NextIdx(t), &opts,
		fmt.Sprintf("token-set %s cas=%v repl=%v login=%v", strings.Join(desc, ","), opts.CAS, opts.FromReplication, opts.ProhibitUnprivileged))
	c.Multi = len(opts.Tokens) > 1
	c.RMW = opts.CAS
	return c
}

func (w *FWorld) drawTokenDelete(t *rapid.T) *FCmd {
	existing := w.tokens()
	var expired structs.ACLTokens // what the leader's reaper would delete: expired as of the leader's clock
	for _, tok := range existing {
		if tok.HasExpirationTime() && tok.ExpirationTime.Before(w.Clock) {
			expired = append(expired, tok)
		}
	}
	var ids []string
	n := pick(t, "ntokdel", []int{1, 1, 2})
	for i := 0; i < n; i++ {
		id := ghostID
		if len(existing) > 0 && chance(t, "tokdellive", 85) {
			id = pick(t, "tokdel", existing).AccessorID
		}
		if len(expired) > 0 && chance(t, "tokreap", 60) {
			id = pick(t, "tokreappick", expired).AccessorID
		}
		if id == acl.AnonymousTokenID {
			continue // refused by the endpoint
		}
		ids = append(ids, id)
	}
	if len(ids) == 0 {
		return nil
	}
	c := NewFCmd("acl/token-delete", "acl", structs.ACLTokenDeleteRequestType, w.NextIdx(t), &structs.ACLTokenBatchDeleteRequest{TokenIDs: ids}, "token-delete "+shortAll(ids))
	c.RMW, c.Multi = true, len(ids) > 1
	return c
}

func (w *FWorld) drawBootstrap(t *rapid.T) *FCmd {
	tok := w.newToken(t)
	if tok == nil {
		return nil
	}
	tok.Description, tok.Local, tok.ExpirationTime = "Bootstrap Token (Global Management)", false, nil
	tok.Policies = []structs.ACLTokenPolicyLink{{ID: structs.ACLPolicyGlobalManagementID}}
	tok.SetHash(true)
	_, resetIdx, _ := w.Store.CanBootstrapACLToken()
	req := &structs.ACLTokenBootstrapRequest{Token: *tok, ResetIndex: pick(t, "resetidx", []uint64{0, 0, resetIdx, resetIdx, resetIdx + 1})}
	c := NewFCmd("acl/bootstrap", "acl", structs.ACLBootstrapRequestType, w.NextIdx(t), req, fmt.Sprintf("bootstrap %s reset=%d", short(tok.AccessorID), req.ResetIndex))
	c.RMW = true
	return c
}

func (w *FWorld) drawAuthMethodSet(t *rapid.T) *FCmd {
	m := &structs.ACLAuthMethod{Name: pick(t, "amname", aclMethodNames), Type: "kubernetes", TokenNameFormat: structs.DefaultACLAuthMethodTokenNameFormat,
		Config: map[string]interface{}{"Host": pick(t, "amhost", []string{"https://k8s-1", "https://k8s-2"})}, EnterpriseMeta: defaultEM}
	if chance(t, "amdisplay", 30) {
		m.DisplayName = "display"
	}
	if chance(t, "amttl", 30) {
		m.MaxTokenTTL = time.Duration(rapid.IntRange(1, 24).Draw(t, "amttlv")) * time.Hour
	}
	m.TokenLocality = pick(t, "amlocality", []string{"", "local", "global"})
	if chance(t, "amtype", 8) { // lost race against a delete+recreate with another type: refused by the state store when the method exists
		m.Type = "jwt"
	}
	req := &structs.ACLAuthMethodBatchSetRequest{AuthMethods: structs.ACLAuthMethods{m}}
	return NewFCmd("acl/authmethod-set", "acl", structs.ACLAuthMethodSetRequestType, w.NextIdx(t), req, fmt.Sprintf("authmethod-set %s type=%s locality=%q", m.Name, m.Type, m.TokenLocality))
}

func (w *FWorld) drawAuthMethodDelete(t *rapid.T) *FCmd {
	name := pick(t, "amdel", aclMethodNames)
	if ms := w.methods(); len(ms) > 0 && chance(t, "amdellive", 80) {
		name = pick(t, "amdelpick", ms).Name
	}
	req := &structs.ACLAuthMethodBatchDeleteRequest{AuthMethodNames: []string{name}, EnterpriseMeta: defaultEM}
	c := NewFCmd("acl/authmethod-delete", "acl", structs.ACLAuthMethodDeleteRequestType, w.NextIdx(t), req, "authmethod-delete "+name)
	c.RMW, c.Multi = true, true // cascades to the method's binding rules and tokens
	return c
}

func (w *FWorld) drawBindingRuleSet(t *rapid.T) *FCmd {
	existing := w.rules()
	ms := w.methods()
	if len(ms) == 0 && chance(t, "brneedsmethod", 75) {
		return w.drawAuthMethodSet(t)
	}
	method := pick(t, "brmethod", aclMethodNames)
	if len(ms) > 0 && chance(t, "brmethodlive", 85) {
		method = pick(t, "brmethodpick", ms).Name
	}
	var r *structs.ACLBindingRule
	if len(existing) > 0 && chance(t, "brupd", 40) {
		e := pick(t, "brupdpick", existing)
		r = &structs.ACLBindingRule{ID: e.ID, AuthMethod: e.AuthMethod}
	} else {
		id, ok := w.mint("f0a")
		if !ok {
			return nil
		}
		r = &structs.ACLBindingRule{ID: id, AuthMethod: method}
	}
	r.BindType = pick(t, "brtype", []string{structs.BindingRuleBindTypeService, structs.BindingRuleBindTypeRole, structs.BindingRuleBindTypeNode})
	r.BindName = pick(t, "brname", []string{"web", "${serviceaccount.name}", "role-a"})
	if chance(t, "brsel", 30) {
		r.Selector = "serviceaccount.namespace==default"
	}
	if chance(t, "brdesc", 20) {
		r.Description = "rule"
	}
	r.EnterpriseMeta = defaultEM
	req := &structs.ACLBindingRuleBatchSetRequest{BindingRules: structs.ACLBindingRules{r}}
	return NewFCmd("acl/bindingrule-set", "acl", structs.ACLBindingRuleSetRequestType, w.NextIdx(t), req, fmt.Sprintf("bindingrule-set %s method=%s %s:%s", short(r.ID), r.AuthMethod, r.BindType, r.BindName))
}

func (w *FWorld) drawBindingRuleDelete(t *rapid.T) *FCmd {
	id := ghostID
	if rs := w.rules(); len(rs) > 0 && chance(t, "brdellive", 85) {
		id = pick(t, "brdel", rs).ID
	}
	c := NewFCmd("acl/bindingrule-delete", "acl", structs.ACLBindingRuleDeleteRequestType, w.NextIdx(t), &structs.ACLBindingRuleBatchDeleteRequest{BindingRuleIDs: []string{id}}, "bindingrule-delete "+short(id))
	c.RMW = true
	return c
}

// DrawDeprecatedACL emits the removed legacy ACL command (the handler ignores the body and always errors).
func (w *FWorld) DrawDeprecatedACL(t *rapid.T) *FCmd {
	body := map[string]interface{}{"Op": pick(t, "legacyaclop", []string{"set", "delete"})}
	return NewFCmd("acl/deprecated", "acl", structs.DeprecatedACLRequestType, w.NextIdx(t), body, "legacy ACL request")
}

// ---- intentions

var ixnNames = []string{"web", "api", "db", "*"}

func (w *FWorld) usingConfigIntentions() bool {
	ok, _ := w.Store.AreIntentionsInConfigEntries()
	return ok
}

func (w *FWorld) drawIntentionBody(t *rapid.T) *structs.Intention {
	ixn := &structs.Intention{
		SourceName: pick(t, "ixnsrc", ixnNames), DestinationName: pick(t, "ixndst", ixnNames),
		Action:      pick(t, "ixnact", []structs.IntentionAction{structs.IntentionActionAllow, structs.IntentionActionDeny}),
		SourceType:  structs.IntentionSourceConsul,
		Description: pick(t, "ixndesc", []string{"", "", "why"}),
	}
	if chance(t, "ixnmeta", 15) {
		ixn.Meta = map[string]string{"k": "v"}
	}
	ixn.FillPartitionAndNamespace(&defaultEM, true)
	return ixn
}

// DrawIntention draws legacy intention ops (as pre-1.9 leaders appended them), the mutations the current
// Intention.Apply endpoint appends, and the leader's delete-all.
func (w *FWorld) DrawIntention(t *rapid.T) *FCmd {
	usingCE := w.usingConfigIntentions()
	_, all, _, _ := w.Store.Intentions(nil, structs.WildcardEnterpriseMetaInDefaultPartition())
	var withID structs.Intentions
	for _, x := range all {
		if x.ID != "" {
			withID = append(withID, x)
		}
	}
	k := rapid.IntRange(0, 19).Draw(t, "ixnkind")
	legacyWire := !usingCE
	if chance(t, "ixnwrongera", 12) { // an entry of the other era (old log replayed / leader raced the migration)
		legacyWire = !legacyWire
	}
	now := w.tick(t).UTC()
	mk := func(kind string, req *structs.IntentionRequest, desc string, rmw bool) *FCmd {
		req.Datacenter = fsmDC
		c := NewFCmd("intention/"+kind, "intention", structs.IntentionRequestType, w.NextIdx(t), req, desc)
		c.RMW = rmw
		return c
	}
	if k == 0 {
		c := mk("delete-all", &structs.IntentionRequest{Op: structs.IntentionOpDeleteAll}, "intention delete-all", true)
		c.Multi = true
		return c
	}
	if legacyWire {
		switch {
		case k <= 9: // create
			ixn := w.drawIntentionBody(t)
			id, ok := w.mint("1a0")
			if !ok {
				return nil
			}
			ixn.ID, ixn.CreatedAt, ixn.UpdatedAt = id, now, now
			//nolint:staticcheck
			ixn.UpdatePrecedence()
			if ixn.Validate() != nil {
				return nil
			}
			ixn.SetHash()
			return mk("legacy-create", &structs.IntentionRequest{Op: structs.IntentionOpCreate, Intention: ixn}, fmt.Sprintf("legacy intention create %s %s->%s %s", short(id), ixn.SourceName, ixn.DestinationName, ixn.Action), false)
		case k <= 14: // update
			ixn := w.drawIntentionBody(t)
			ixn.ID = ghostID
			if len(withID) > 0 && chance(t, "ixnupdlive", 90) {
				e := pick(t, "ixnupd", withID)
				ixn.ID, ixn.CreatedAt = e.ID, e.CreatedAt
				if chance(t, "ixnkeeppair", 70) {
					ixn.SourceName, ixn.DestinationName = e.SourceName, e.DestinationName
				}
			}
			ixn.UpdatedAt = now
			ixn.UpdatePrecedence()
			if ixn.Validate() != nil {
				return nil
			}
			ixn.SetHash()
			return mk("legacy-update", &structs.IntentionRequest{Op: structs.IntentionOpUpdate, Intention: ixn}, fmt.Sprintf("legacy intention update %s %s->%s %s", short(ixn.ID), ixn.SourceName, ixn.DestinationName, ixn.Action), true)
		default:
			id := ghostID
			if len(withID) > 0 && chance(t, "ixndellive", 90) {
				id = pick(t, "ixndel", withID).ID
			}
			return mk("legacy-delete", &structs.IntentionRequest{Op: structs.IntentionOpDelete, Intention: &structs.Intention{ID: id}}, "legacy intention delete "+short(id), true)
		}
	}
	// config-entry era: the endpoint turns every request into a mutation
	switch {
	case k <= 4: // legacy create through the compat endpoint
		ixn := w.drawIntentionBody(t)
		id, ok := w.mint("1a0")
		if !ok {
			return nil
		}
		ixn.ID, ixn.CreatedAt, ixn.UpdatedAt = id, now, now
		if ixn.Validate() != nil {
			return nil
		}
		mut := &structs.IntentionMutation{Destination: ixn.DestinationServiceName(), Value: ixn.ToSourceIntention(true)}
		mut.Value.LegacyCreateTime, mut.Value.LegacyUpdateTime = &now, &now
		return mk("mut-create", &structs.IntentionRequest{Op: structs.IntentionOpCreate, Mutation: mut}, fmt.Sprintf("intention create %s %s->%s %s", short(id), ixn.SourceName, ixn.DestinationName, ixn.Action), true)
	case k <= 8: // legacy update by ID
		ixn := w.drawIntentionBody(t)
		ixn.ID = ghostID
		if len(withID) > 0 && chance(t, "ixnupdlive", 90) {
			e := pick(t, "ixnupd", withID)
			ixn.ID, ixn.DestinationName = e.ID, e.DestinationName
			if chance(t, "ixnkeepsrc", 70) {
				ixn.SourceName = e.SourceName
			}
		}
		if ixn.Validate() != nil {
			return nil
		}
		mut := &structs.IntentionMutation{ID: ixn.ID, Value: ixn.ToSourceIntention(true)}
		mut.Value.LegacyCreateTime, mut.Value.LegacyUpdateTime = &now, &now
		return mk("mut-update", &structs.IntentionRequest{Op: structs.IntentionOpUpdate, Mutation: mut}, fmt.Sprintf("intention update %s %s->%s %s", short(ixn.ID), ixn.SourceName, ixn.DestinationName, ixn.Action), true)
	case k <= 13: // upsert by name
		ixn := w.drawIntentionBody(t)
		ixn.Meta = nil
		mut := &structs.IntentionMutation{Destination: ixn.DestinationServiceName(), Source: ixn.SourceServiceName(), Value: ixn.ToSourceIntention(false)}
		return mk("mut-upsert", &structs.IntentionRequest{Op: structs.IntentionOpUpsert, Mutation: mut}, fmt.Sprintf("intention upsert %s->%s %s", ixn.SourceName, ixn.DestinationName, ixn.Action), true)
	case k <= 16: // delete by ID
		id := ghostID
		if len(withID) > 0 && chance(t, "ixndellive", 90) {
			id = pick(t, "ixndel", withID).ID
		}
		return mk("mut-delete-id", &structs.IntentionRequest{Op: structs.IntentionOpDelete, Mutation: &structs.IntentionMutation{ID: id}}, "intention delete "+short(id), true)
	default: // delete by name
		ixn := w.drawIntentionBody(t)
		if len(all) > 0 && chance(t, "ixndelname", 85) {
			e := pick(t, "ixndelpick", all)
			ixn.SourceName, ixn.DestinationName = e.SourceName, e.DestinationName
		}
		mut := &structs.IntentionMutation{Destination: ixn.DestinationServiceName(), Source: ixn.SourceServiceName()}
		return mk("mut-delete-name", &structs.IntentionRequest{Op: structs.IntentionOpDelete, Mutation: mut}, fmt.Sprintf("intention delete %s->%s", ixn.SourceName, ixn.DestinationName), true)
	}
}

// DrawTxnExtra draws the transactions only internal callers append: legacy intention replication batches.
func (w *FWorld) DrawTxnExtra(t *rapid.T) *FCmd {
	_, legacy, _ := w.Store.LegacyIntentions(nil, structs.WildcardEnterpriseMetaInDefaultPartition())
	now := w.tick(t).UTC()
	var ops structs.TxnOps
	var desc []string
	n := rapid.IntRange(1, 3).Draw(t, "ntxnixn")
	for i := 0; i < n; i++ {
		if len(legacy) > 0 && chance(t, "txnixndel", 35) {
			e := pick(t, "txnixndelpick", legacy)
			ops = append(ops, &structs.TxnOp{Intention: &structs.TxnIntentionOp{Op: structs.IntentionOpDelete, Intention: &structs.Intention{ID: e.ID}}})
			desc = append(desc, "ixn-delete "+short(e.ID))
			continue
		}
		ixn := w.drawIntentionBody(t)
		id, ok := w.mint("1a0")
		if !ok {
			break
		}
		ixn.ID, ixn.CreatedAt, ixn.UpdatedAt = id, now, now
		ixn.UpdatePrecedence()
		if ixn.Validate() != nil {
			continue
		}
		ixn.SetHash()
		ops = append(ops, &structs.TxnOp{Intention: &structs.TxnIntentionOp{Op: structs.IntentionOpUpdate, Intention: ixn}})
		desc = append(desc, fmt.Sprintf("ixn-update %s %s->%s", short(id), ixn.SourceName, ixn.DestinationName))
	}
	if len(ops) == 0 {
		return nil
	}
	c := NewFCmd("txn/intentions", "txn", structs.TxnRequestType, w.NextIdx(t), &structs.TxnRequest{Datacenter: fsmDC, Ops: ops}, "txn ["+strings.Join(desc, "; ")+"]")
	c.Multi, c.RMW = len(ops) > 1, true
	return c
}

// ---- Connect CA

func (w *FWorld) drawRoots(t *rapid.T) []*structs.CARoot {
	n := rapid.IntRange(1, 2).Draw(t, "nroots")
	active := rapid.IntRange(0, n-1).Draw(t, "activeroot")
	names := []string{"root-1", "root-2", "root-3"}
	first := rapid.IntRange(0, len(names)-n).Draw(t, "firstroot")
	var out []*structs.CARoot
	for i := 0; i < n; i++ {
		id := names[first+i]
		r := &structs.CARoot{ID: id, Name: "Consul CA " + id, SerialNumber: uint64(first + i + 1), SigningKeyID: "key-" + id, RootCert: "-----BEGIN CERTIFICATE-----\n" + id + "\n-----END CERTIFICATE-----\n",
			NotBefore: w.Clock.Add(-time.Hour).UTC(), NotAfter: w.Clock.Add(24 * time.Hour).UTC(), Active: i == active, PrivateKeyType: "ec", PrivateKeyBits: 256}
		if !r.Active {
			r.RotatedOutAt = w.Clock.UTC()
		}
		out = append(out, r)
	}
	return out
}

func (w *FWorld) drawCAConfig(t *rapid.T) *structs.CAConfiguration {
	cfg := &structs.CAConfiguration{ClusterID: "11111111-2222-3333-4444-555555555555", Provider: pick(t, "caprovider", []string{"consul", "consul", "vault"}),
		Config: map[string]interface{}{"LeafCertTTL": pick(t, "leafttl", []string{"72h", "24h"})}}
	if chance(t, "castate", 20) {
		cfg.State = map[string]string{"k": "v"}
	}
	_, cur, _ := w.Store.CAConfig(nil)
	var ci uint64
	if cur != nil {
		ci = cur.ModifyIndex
	}
	cfg.ModifyIndex = pick(t, "cacfgcas", []uint64{0, ci, ci, ci + 1})
	return cfg
}

// DrawCA draws one of the six CA operations or the leaf-index increment.
func (w *FWorld) DrawCA(t *rapid.T) *FCmd {
	rootIdx, _, _ := w.Store.CARoots(nil)
	casIdx := func() uint64 { return pick(t, "rootcas", []uint64{rootIdx, rootIdx, rootIdx, rootIdx + 1, 0}) }
	mk := func(kind string, req *structs.CARequest, desc string, rmw bool) *FCmd {
		req.Datacenter = fsmDC
		c := NewFCmd("ca/"+kind, "ca", structs.ConnectCARequestType, w.NextIdx(t), req, desc)
		c.RMW = rmw
		return c
	}
	switch rapid.IntRange(0, 11).Draw(t, "cakind") {
	case 0, 1:
		cfg := w.drawCAConfig(t)
		return mk("set-config", &structs.CARequest{Op: structs.CAOpSetConfig, Config: cfg}, fmt.Sprintf("ca set-config provider=%s cas=%d", cfg.Provider, cfg.ModifyIndex), cfg.ModifyIndex != 0)
	case 2, 3:
		req := &structs.CARequest{Op: structs.CAOpSetRoots, Index: casIdx(), Roots: w.drawRoots(t)}
		c := mk("set-roots", req, fmt.Sprintf("ca set-roots n=%d cas=%d", len(req.Roots), req.Index), true)
		c.Multi = len(req.Roots) > 1
		return c
	case 4, 5:
		req := &structs.CARequest{Op: structs.CAOpSetRootsAndConfig, Index: casIdx(), Roots: w.drawRoots(t), Config: w.drawCAConfig(t)}
		c := mk("set-roots-and-config", req, fmt.Sprintf("ca set-roots-and-config n=%d cas=%d cfgcas=%d", len(req.Roots), req.Index, req.Config.ModifyIndex), true)
		c.Multi = true
		return c
	case 6, 7:
		st := &structs.CAConsulProviderState{ID: pick(t, "provid", []string{"prov-1", "prov-2"}), PrivateKey: pick(t, "provkey", []string{"", "key"}), RootCert: pick(t, "provroot", []string{"", "cert"})}
		return mk("set-provider-state", &structs.CARequest{Op: structs.CAOpSetProviderState, ProviderState: st}, "ca set-provider-state "+st.ID, false)
	case 8:
		st := &structs.CAConsulProviderState{ID: pick(t, "provid", []string{"prov-1", "prov-2"})}
		return mk("delete-provider-state", &structs.CARequest{Op: structs.CAOpDeleteProviderState, ProviderState: st}, "ca delete-provider-state "+st.ID, true)
	case 9, 10:
		return mk("increment-serial", &structs.CARequest{Op: structs.CAOpIncrementProviderSerialNumber}, "ca increment-provider-serial", true)
	default:
		req := &structs.CALeafRequest{Op: structs.CALeafOpIncrementIndex, Datacenter: fsmDC}
		return NewFCmd("ca/leaf-index", "ca", structs.ConnectCALeafRequestType|structs.IgnoreUnknownTypeFlag, w.NextIdx(t), req, "ca leaf increment-index")
	}
}

// ---- autopilot, feature gates, federation states

func (w *FWorld) DrawAutopilot(t *rapid.T) *FCmd {
	_, cur, _ := w.Store.AutopilotConfig()
	cfg := structs.AutopilotConfig{CleanupDeadServers: chance(t, "apclean", 50), LastContactThreshold: time.Duration(rapid.IntRange(1, 3).Draw(t, "aplct")) * 200 * time.Millisecond,
		MaxTrailingLogs: uint64(pick(t, "aplogs", []int{250, 500})), ServerStabilizationTime: 10 * time.Second}
	req := &structs.AutopilotSetConfigRequest{Datacenter: fsmDC, Config: cfg, CAS: chance(t, "apcas", 50)}
	if req.CAS {
		var ci uint64
		if cur != nil {
			ci = cur.ModifyIndex
		}
		req.Config.ModifyIndex = pick(t, "apcasidx", []uint64{ci, ci, ci + 1, 0})
	}
	c := NewFCmd("autopilot/set", "autopilot", structs.AutopilotRequestType, w.NextIdx(t), req, fmt.Sprintf("autopilot cas=%v idx=%d", req.CAS, req.Config.ModifyIndex))
	c.RMW = req.CAS
	return c
}

func (w *FWorld) DrawFeatureGate(t *rapid.T) *FCmd {
	_, pol, st, _ := w.Store.FeatureGatePolicyAndStatus(nil)
	var pi, si uint64
	if pol != nil {
		pi = pol.ModifyIndex
	}
	if st != nil {
		si = st.ModifyIndex
	}
	name := pick(t, "fgname", []string{"gate-a", "gate-b"})
	enabled := chance(t, "fgenabled", 50)
	req := &structs.FeatureGateUpdateRequest{
		Status: &structs.FeatureGateStatus{RegistryDigest: "digest-1", Features: map[string]structs.ResolvedFeatureGate{name: {DesiredEnabled: enabled, EffectiveEnabled: enabled, Eligible: true,
			Source: string(structs.FeatureGateSourceOperator), Reason: structs.FeatureGateReasonOperatorEnabled}}},
		ExpectedPolicyIndex: pick(t, "fgpi", []uint64{pi, pi, pi, pi + 1}),
		ExpectedStatusIndex: pick(t, "fgsi", []uint64{si, si, si, si + 1}),
	}
	if pol == nil || chance(t, "fgpolicy", 50) {
		req.Policy = &structs.FeatureGatePolicy{Settings: map[string]structs.FeatureGateSetting{name: {Enabled: enabled, Source: structs.FeatureGateSourceOperator}}}
	}
	c := NewFCmd("featuregate/update", "featuregate", structs.FeatureGateRequestType|structs.IgnoreUnknownTypeFlag, w.NextIdx(t), req,
		fmt.Sprintf("feature-gate %s=%v policy=%v exp=%d/%d", name, enabled, req.Policy != nil, req.ExpectedPolicyIndex, req.ExpectedStatusIndex))
	c.RMW, c.Multi = true, req.Policy != nil
	return c
}

func (w *FWorld) DrawFedState(t *rapid.T) *FCmd {
	dc := pick(t, "feddc", []string{"dc1", "dc2", "dc3"})
	if chance(t, "feddel", 25) {
		req := &structs.FederationStateRequest{Datacenter: fsmDC, Op: structs.FederationStateDelete, State: &structs.FederationState{Datacenter: dc}}
		c := NewFCmd("fedstate/delete", "fedstate", structs.FederationStateRequestType, w.NextIdx(t), req, "fedstate delete "+dc)
		c.RMW = true
		return c
	}
	fs := &structs.FederationState{Datacenter: dc, UpdatedAt: w.tick(t).UTC(), PrimaryModifyIndex: uint64(rapid.IntRange(0, 3).Draw(t, "fedpmi"))}
	if chance(t, "fedgw", 50) {
		fs.MeshGateways = structs.CheckServiceNodes{{
			Node:    &structs.Node{Node: "gw-" + dc, Address: "10.9.0.1", Datacenter: dc},
			Service: &structs.NodeService{Kind: structs.ServiceKindMeshGateway, ID: "mesh-gw", Service: "mesh-gw", Port: 8443, EnterpriseMeta: defaultEM},
		}}
	}
	req := &structs.FederationStateRequest{Datacenter: fsmDC, Op: structs.FederationStateUpsert, State: fs}
	return NewFCmd("fedstate/upsert", "fedstate", structs.FederationStateRequestType, w.NextIdx(t), req, fmt.Sprintf("fedstate upsert %s gws=%d", dc, len(fs.MeshGateways)))
}

// ---- peering

var peerNames = []string{"peerA", "peerB"}

func (w *FWorld) peerings() []*pbpeering.Peering {
	_, ps, _ := w.Store.PeeringList(nil, *structs.DefaultEnterpriseMetaInDefaultPartition())
	sort.Slice(ps, func(i, j int) bool { return ps[i].Name < ps[j].Name })
	return ps
}

func (w *FWorld) peeringByName(name string) *pbpeering.Peering {
	for _, p := range w.peerings() {
		if p.Name == name {
			return p
		}
	}
	return nil
}

// DrawPeering draws the raft entries of the peering service, the peer stream handlers and the leader's cleanup.
func (w *FWorld) DrawPeering(t *rapid.T) *FCmd {
	all := w.peerings()
	name := pick(t, "peername", peerNames)
	cur := w.peeringByName(name)
	if len(all) > 0 && chance(t, "peerlive", 60) {
		cur = pick(t, "peerpick", all)
		name = cur.Name
	}
	write := func(kind string, req *pbpeering.PeeringWriteRequest, desc string) *FCmd {
		c := NewFCmdProto("peering/"+kind, "peering", structs.PeeringWriteType, w.NextIdx(t), req, desc)
		c.RMW = true
		c.Multi = req.SecretsRequest != nil
		return c
	}
	k := rapid.IntRange(0, 19).Draw(t, "peerkind")
	// aimed: carry the handshake of an accepting peering forward (token generated -> secret exchanged -> pending secret
	// promoted to the active stream secret), so that fully established peerings exist at the cut and are deleted or
	// re-established after it
	if cur != nil && !cur.ShouldDial() && cur.State != pbpeering.PeeringState_DELETING && chance(t, "handshake", 40) {
		if sec, _ := w.Store.PeeringSecretsRead(nil, cur.ID); sec.GetStream().GetPendingSecretID() != "" {
			k = 11
		} else if sec.GetEstablishment().GetSecretID() != "" {
			k = 12
		}
	}
	switch {
	case k <= 4: // GenerateToken (acceptor side): new peering or refreshed establishment secret
		var p *pbpeering.Peering
		if cur != nil {
			if cur.ShouldDial() || cur.State == pbpeering.PeeringState_DELETING {
				return nil // GenerateToken refuses a peer name already used as dialer (validatePeer) or being deleted
			}
			p = clonePeering(cur)
		} else {
			id, ok := w.mint("2a0")
			if !ok {
				return nil
			}
			p = &pbpeering.Peering{ID: id, Name: name}
			if chance(t, "peermeta", 20) {
				p.Meta = map[string]string{"env": "x"}
			}
		}
		sec, ok := w.mint("3a0")
		if !ok {
			return nil
		}
		req := &pbpeering.PeeringWriteRequest{Peering: p, SecretsRequest: &pbpeering.SecretsWriteRequest{PeerID: p.ID,
			Request: &pbpeering.SecretsWriteRequest_GenerateToken{GenerateToken: &pbpeering.SecretsWriteRequest_GenerateTokenRequest{EstablishmentSecret: sec}}}}
		return write("generate-token", req, fmt.Sprintf("peering generate-token %s id=%s", name, short(p.ID)))
	case k <= 7: // Establish (dialer side), first write without state, second with secret
		id := ""
		if cur != nil {
			if !cur.ShouldDial() || cur.State == pbpeering.PeeringState_DELETING {
				return nil // Establish refuses a peer name already used as acceptor (validatePeer) or being deleted
			}
			id = cur.ID
		} else if nid, ok := w.mint("2a0"); ok {
			id = nid
		} else {
			return nil
		}
		p := &pbpeering.Peering{ID: id, Name: name, PeerCAPems: []string{"-----BEGIN CERTIFICATE-----\npeer\n-----END CERTIFICATE-----\n"}, PeerServerAddresses: []string{"10.8.0.1:8502"},
			PeerServerName: "server.dc2.peer", PeerID: "2b000000-0000-4000-8000-000000000001", Remote: &pbpeering.RemoteInfo{Partition: "", Datacenter: "dc2"}}
		req := &pbpeering.PeeringWriteRequest{Peering: p}
		if chance(t, "peerestsecret", 50) {
			p.State = pbpeering.PeeringState_ESTABLISHING
			req.SecretsRequest = &pbpeering.SecretsWriteRequest{PeerID: id, Request: &pbpeering.SecretsWriteRequest_Establish{Establish: &pbpeering.SecretsWriteRequest_EstablishRequest{ActiveStreamSecret: "3b000000-0000-4000-8000-00000000000" + pick(t, "estsecret", []string{"1", "2"})}}}
		}
		return write("establish", req, fmt.Sprintf("peering establish %s id=%s state=%s", name, short(id), p.State))
	case k <= 9: // mark for deletion (PeeringDelete RPC)
		if cur == nil {
			return nil
		}
		p := &pbpeering.Peering{ID: cur.ID, Name: cur.Name, State: pbpeering.PeeringState_DELETING, ManualServerAddresses: cur.ManualServerAddresses, PeerServerAddresses: cur.PeerServerAddresses,
			DeletedAt: timestamppb.New(w.tick(t).UTC())}
		return write("mark-deleting", &pbpeering.PeeringWriteRequest{Peering: p}, "peering mark-deleting "+cur.Name)
	case k == 10: // state update by the stream handlers (active / failing / terminated)
		if cur == nil {
			return nil
		}
		p := clonePeering(cur)
		p.State = pick(t, "peerstate", []pbpeering.PeeringState{pbpeering.PeeringState_ACTIVE, pbpeering.PeeringState_FAILING, pbpeering.PeeringState_TERMINATED})
		if cur.State == pbpeering.PeeringState_DELETING && p.State != pbpeering.PeeringState_TERMINATED {
			p.State = pbpeering.PeeringState_DELETING // handlers never revive a deleting peering
		}
		return write("state", &pbpeering.PeeringWriteRequest{Peering: p}, fmt.Sprintf("peering state %s -> %s", cur.Name, p.State))
	case k == 11: // promote pending secret when the dialer opens the stream
		if cur == nil {
			return nil
		}
		if cur.ShouldDial() {
			return nil // only the accepting side promotes
		}
		sec, _ := w.Store.PeeringSecretsRead(nil, cur.ID)
		pending := sec.GetStream().GetPendingSecretID()
		if pending == "" || chance(t, "promotestale", 20) {
			pending = "3c000000-0000-4000-8000-000000000001"
		}
		p := clonePeering(cur)
		p.Remote = &pbpeering.RemoteInfo{Datacenter: "dc2"}
		req := &pbpeering.PeeringWriteRequest{Peering: p, SecretsRequest: &pbpeering.SecretsWriteRequest{PeerID: cur.ID,
			Request: &pbpeering.SecretsWriteRequest_PromotePending{PromotePending: &pbpeering.SecretsWriteRequest_PromotePendingRequest{ActiveStreamSecret: pending}}}}
		return write("promote-pending", req, "peering promote-pending "+cur.Name)
	case k <= 13: // ExchangeSecret
		id := ghostID
		est := "3d000000-0000-4000-8000-000000000001"
		if cur != nil {
			id = cur.ID
			if sec, _ := w.Store.PeeringSecretsRead(nil, cur.ID); sec.GetEstablishment().GetSecretID() != "" && chance(t, "exchlive", 80) {
				est = sec.GetEstablishment().GetSecretID()
			}
		}
		pend, ok := w.mint("3e0")
		if !ok {
			return nil
		}
		req := &pbpeering.SecretsWriteRequest{PeerID: id, Request: &pbpeering.SecretsWriteRequest_ExchangeSecret{ExchangeSecret: &pbpeering.SecretsWriteRequest_ExchangeSecretRequest{EstablishmentSecret: est, PendingStreamSecret: pend}}}
		c := NewFCmdProto("peering/secrets-exchange", "peering", structs.PeeringSecretsWriteType, w.NextIdx(t), req, "peering exchange-secret "+short(id))
		c.RMW = true
		return c
	case k == 14: // terminate by ID (peer told us it is gone)
		id := ghostID
		if cur != nil {
			id = cur.ID
		}
		c := NewFCmdProto("peering/terminate", "peering", structs.PeeringTerminateByIDType, w.NextIdx(t), &pbpeering.PeeringTerminateByIDRequest{ID: id}, "peering terminate "+short(id))
		c.RMW = true
		return c
	case k <= 16: // trust bundle write
		tb := &pbpeering.PeeringTrustBundle{TrustDomain: name + ".consul", PeerName: name, RootPEMs: []string{pick(t, "tbpem", []string{"pem-1\n", "pem-2"})}, ExportedPartition: ""}
		c := NewFCmdProto("peering/trust-bundle-write", "peering", structs.PeeringTrustBundleWriteType, w.NextIdx(t), &pbpeering.PeeringTrustBundleWriteRequest{PeeringTrustBundle: tb}, "peering trust-bundle-write "+name)
		c.RMW, c.Multi = true, true
		return c
	case k == 17:
		c := NewFCmdProto("peering/trust-bundle-delete", "peering", structs.PeeringTrustBundleDeleteType, w.NextIdx(t), &pbpeering.PeeringTrustBundleDeleteRequest{Name: name}, "peering trust-bundle-delete "+name)
		c.RMW = true
		return c
	default: // final delete by the leader's cleanup routine
		c := NewFCmdProto("peering/delete", "peering", structs.PeeringDeleteType, w.NextIdx(t), &pbpeering.PeeringDeleteRequest{Name: name}, "peering delete "+name)
		c.RMW = true
		return c
	}
}

func clonePeering(p *pbpeering.Peering) *pbpeering.Peering {
	return &pbpeering.Peering{ID: p.ID, Name: p.Name, Partition: p.Partition, DeletedAt: p.DeletedAt, Meta: p.Meta, State: p.State, PeerID: p.PeerID, PeerCAPems: p.PeerCAPems,
		PeerServerName: p.PeerServerName, PeerServerAddresses: p.PeerServerAddresses, Remote: p.Remote, ManualServerAddresses: p.ManualServerAddresses}
}

// ---- manual virtual IPs

var manualIPs = []string{"10.77.0.1", "10.77.0.2", "10.77.0.3"}

// DrawManualVIP draws Internal.AssignManualServiceVIPs' raft entry: the IP list is the deduplicated request list in
// the (map) order the leader happened to produce — here a drawn permutation. The generator aims at the interesting
// pre-states: it first makes services own a virtual-IP row (sidecar registrations), hands out manual IPs, and then
// reassigns IPs held by OTHER services (one command modifying several rows).
func (w *FWorld) DrawManualVIP(t *rapid.T) *FCmd {
	holders := map[string][]string{} // service with a VIP row -> its manual IPs
	var withVIP, without []string
	for _, s := range ServiceNames {
		if v, _ := w.Store.ServiceManualVIPs(structs.PeeredServiceName{ServiceName: structs.NewServiceName(s, nil)}); v != nil {
			withVIP = append(withVIP, s)
			holders[s] = v.ManualIPs
		} else {
			without = append(without, s)
		}
	}
	if len(without) > 0 && chance(t, "vipseed", 30+25*len(without)/len(ServiceNames)*2) {
		if c := w.drawVIPSeed(t, pick(t, "vipseedsvc", without)); c != nil {
			return c
		}
	}
	svc := pick(t, "vipsvc", ServiceNames)
	if len(withVIP) > 0 && chance(t, "vipsvclive", 90) {
		svc = pick(t, "vipsvcpick", withVIP)
	}
	var ips []string
	mode := rapid.IntRange(0, 9).Draw(t, "vipmode")
	if len(withVIP) > 0 && mode <= 6 && chance(t, "vipaimtarget", 80) {
		// aim: prefer a target that holds no manual IP itself (handing out spreads the IPs over several services,
		// stealing then takes them from as many services as possible in ONE command)
		var empty []string
		for _, o := range withVIP {
			if len(holders[o]) == 0 {
				empty = append(empty, o)
			}
		}
		if len(empty) > 0 {
			svc = pick(t, "vipemptytarget", empty)
		}
	}
	switch {
	case mode <= 3: // steal: every IP currently held by the other services (plus maybe a free one)
		var held []string
		for _, o := range withVIP {
			if o != svc {
				held = append(held, holders[o]...)
			}
		}
		if len(held) == 0 {
			held = []string{pick(t, "vipfree", manualIPs)}
		}
		ips = rapid.Permutation(held).Draw(t, "vipstealperm")
		if len(ips) > 1 && chance(t, "vipstealpart", 25) {
			ips = ips[:len(ips)-1]
		}
	case mode <= 6: // hand out one IP nobody holds (so that several services hold one each)
		used := map[string]bool{}
		for _, h := range holders {
			for _, ip := range h {
				used[ip] = true
			}
		}
		for _, ip := range manualIPs {
			if !used[ip] {
				ips = []string{ip}
				break
			}
		}
		if ips == nil {
			ips = []string{pick(t, "vipany", manualIPs)}
		}
	default:
		perm := rapid.Permutation(manualIPs).Draw(t, "vipperm")
		ips = append([]string{}, perm[:pick(t, "nvips", []int{0, 1, 2, 3})]...)
	}
	moved := 0
	for o, h := range holders {
		if o == svc {
			continue
		}
		hit := false
		for _, ip := range ips {
			for _, x := range h {
				hit = hit || x == ip
			}
		}
		if hit {
			moved++
		}
	}
	psn := structs.PeeredServiceName{ServiceName: structs.NewServiceName(svc, &defaultEM)}
	if cur, _ := w.Store.ServiceManualVIPs(psn); cur != nil && sameSet(cur.ManualIPs, ips) {
		return nil // the endpoint skips the raft apply when nothing would change
	}
	req := state.ServiceVirtualIP{Service: psn, ManualIPs: ips}
	c := NewFCmd("vip/assign-manual", "vip", structs.UpdateVirtualIPRequestType, w.NextIdx(t), req, fmt.Sprintf("manual-vips %s <- %v (modifies %d other services)", svc, ips, moved))
	c.RMW, c.Multi = true, moved >= 1
	return c
}

// drawVIPSeed makes a service own a virtual IP: enables the feature flag if needed, else registers a sidecar proxy.
func (w *FWorld) drawVIPSeed(t *rapid.T, svc string) *FCmd {
	if _, e, _ := w.Store.SystemMetadataGet(nil, structs.SystemMetadataVirtualIPsEnabled); e == nil || e.Value == "" {
		req := &structs.SystemMetadataRequest{Datacenter: fsmDC, Op: structs.SystemMetadataUpsert, Entry: &structs.SystemMetadataEntry{Key: structs.SystemMetadataVirtualIPsEnabled, Value: "true"}}
		return NewFCmd("sysmeta/upsert", "sysmeta", structs.SystemMetadataRequestType, w.NextIdx(t), req, "sysmeta virtual-ips=true")
	}
	node := pick(t, "vipseednode", Nodes)
	reg := &structs.RegisterRequest{Datacenter: fsmDC, Node: node, ID: NodeIDs[node], Address: "10.0.0." + node[1:], EnterpriseMeta: defaultEM,
		Service: &structs.NodeService{Kind: structs.ServiceKindConnectProxy, Service: svc + "-proxy", ID: svc + "-proxy-1", Port: 20000 + len(svc),
			Proxy: structs.ConnectProxyConfig{DestinationServiceName: svc}, Weights: &structs.Weights{Passing: 1, Warning: 1}, EnterpriseMeta: defaultEM}}
	c, err := FromOp(NewRegister(w.NextIdx(t), reg))
	if err != nil {
		return nil
	}
	return c
}

func sameSet(a, b []string) bool {
	if len(a) != len(b) {
		return false
	}
	m := map[string]bool{}
	for _, x := range a {
		m[x] = true
	}
	for _, x := range b {
		if !m[x] {
			return false
		}
	}
	return true
}

// ---- resource operations (internal/storage/raft): the log body is pbstorage.Log, prefixed with the type byte

var (
	resType  = &pbresource.Type{Group: "demo", GroupVersion: "v2", Kind: "Artist"}
	resNames = []string{"r1", "r2"}
)

func (w *FWorld) DrawResource(t *rapid.T) *FCmd {
	var cur []*pbresource.Resource
	if w.Resource != nil {
		cur = w.Resource()
	}
	name := pick(t, "resname", resNames)
	var existing *pbresource.Resource
	for _, r := range cur {
		if r.Id.Name == name {
			existing = r
		}
	}
	ten := &pbresource.Tenancy{Partition: "default", Namespace: "default"}
	if chance(t, "resdelete", 30) {
		id := &pbresource.ID{Type: resType, Tenancy: ten, Name: name, Uid: "uid-ghost"}
		vsn := "7"
		if existing != nil {
			id.Uid = existing.Id.Uid
			vsn = pick(t, "resdelvsn", []string{existing.Version, existing.Version, "1"})
		}
		lg := &pbstorage.Log{Type: pbstorage.LogType_LOG_TYPE_DELETE, Request: &pbstorage.Log_Delete{Delete: &pbstorage.DeleteRequest{Id: id, Version: vsn}}}
		b, _ := lg.MarshalBinary()
		c := NewFCmdRaw("resource/delete", "resource", structs.ResourceOperationType, w.NextIdx(t), b, fmt.Sprintf("resource delete %s uid=%s vsn=%s", name, id.Uid, vsn))
		c.RMW = true
		return c
	}
	res := &pbresource.Resource{Id: &pbresource.ID{Type: resType, Tenancy: ten, Name: name}, Generation: "gen-" + pick(t, "resgen", []string{"1", "2"})}
	if chance(t, "resmeta", 30) {
		res.Metadata = map[string]string{"k": pick(t, "resmetav", []string{"a", "b"})}
	}
	if existing != nil && chance(t, "resupdate", 80) {
		res.Id.Uid = existing.Id.Uid
		res.Version = pick(t, "resvsn", []string{existing.Version, existing.Version, "1", ""})
	} else {
		uid, ok := w.mint("4a0")
		if !ok {
			return nil
		}
		res.Id.Uid = uid
	}
	lg := &pbstorage.Log{Type: pbstorage.LogType_LOG_TYPE_WRITE, Request: &pbstorage.Log_Write{Write: &pbstorage.WriteRequest{Resource: res}}}
	b, _ := lg.MarshalBinary()
	c := NewFCmdRaw("resource/write", "resource", structs.ResourceOperationType, w.NextIdx(t), b, fmt.Sprintf("resource write %s uid=%s vsn=%q", name, short(res.Id.Uid), res.Version))
	c.RMW = res.Version != ""
	return c
}


// DrawConfigExtra draws the config entry kinds the shared World generator does not cover: mesh, exported-services,
// service-splitter, service-router (normalised and validated like every config entry write).
func (w *FWorld) DrawConfigExtra(t *rapid.T) *FCmd {
	var e structs.ConfigEntry
	switch rapid.IntRange(0, 6).Draw(t, "cexkind") {
	case 0:
		e = &structs.MeshConfigEntry{TransparentProxy: structs.TransparentProxyMeshConfig{MeshDestinationsOnly: chance(t, "meshdestonly", 50)}}
	case 1, 2:
		ex := &structs.ExportedServicesConfigEntry{Name: "default"}
		n := rapid.IntRange(1, 2).Draw(t, "nexported")
		for i := 0; i < n; i++ {
			nm := pick(t, "exsvc", []string{"web", "api", "db", "*"})
			dup := false
			for _, s := range ex.Services {
				dup = dup || s.Name == nm
			}
			if !dup {
				ex.Services = append(ex.Services, structs.ExportedService{Name: nm, Consumers: []structs.ServiceConsumer{{Peer: pick(t, "expeer", peerNames)}}})
			}
		}
		e = ex
	case 3, 4:
		sp := &structs.ServiceSplitterConfigEntry{Kind: structs.ServiceSplitter, Name: pick(t, "spname", ServiceNames)}
		other := pick(t, "spother", ServiceNames)
		if other == sp.Name || chance(t, "spsingle", 40) {
			sp.Splits = []structs.ServiceSplit{{Weight: 100, Service: other}}
		} else {
			sp.Splits = []structs.ServiceSplit{{Weight: 60}, {Weight: 40, Service: other}}
		}
		e = sp
	default:
		r := &structs.ServiceRouterConfigEntry{Kind: structs.ServiceRouter, Name: pick(t, "rtname", ServiceNames)}
		r.Routes = []structs.ServiceRoute{{Match: &structs.ServiceRouteMatch{HTTP: &structs.ServiceRouteHTTPMatch{PathPrefix: "/" + pick(t, "rtpath", []string{"v1", "v2"})}},
			Destination: &structs.ServiceRouteDestination{Service: pick(t, "rtdest", ServiceNames)}}}
		e = r
	}
	_, cur, _ := w.Store.ConfigEntry(nil, e.GetKind(), e.GetName(), nil)
	var ci uint64
	if cur != nil {
		ci = cur.GetRaftIndex().ModifyIndex
	}
	kind, op := ConfigSet, structs.ConfigEntryUpsert
	switch rapid.IntRange(0, 9).Draw(t, "cexop") {
	case 0, 1:
		kind, op = ConfigDelete, structs.ConfigEntryDelete
	case 2:
		kind, op = ConfigDelete, structs.ConfigEntryDeleteCAS
		e.GetRaftIndex().ModifyIndex = pick(t, "cexcas", []uint64{ci, ci, ci + 1})
	case 3, 4:
		op = structs.ConfigEntryUpsertCAS
		e.GetRaftIndex().ModifyIndex = pick(t, "cexcas2", []uint64{ci, ci, ci + 1, 0})
	}
	c, err := FromOp(NewConfig(kind, w.NextIdx(t), op, e))
	if err != nil {
		return nil
	}
	return c
}


// DrawBoundSession works on the sessions whose fate depends on the session-check links: it creates a session bound
// to a live, non-critical health check of its node — through NodeChecks or, for service-level checks, through
// ServiceChecks — (registering such a check first when there is none), or ends such a session through its check: the
// check turns critical, is deregistered, or its service is deregistered.
func (w *FWorld) DrawBoundSession(t *rapid.T) *FCmd {
	type cand struct {
		node  string
		check *structs.HealthCheck
	}
	var cands, svcCands []cand
	for _, n := range w.LiveNodes("") {
		for _, c := range w.NodeChecks(n.Node, "") {
			if c.Status != "critical" {
				cands = append(cands, cand{n.Node, c})
				if c.ServiceID != "" {
					svcCands = append(svcCands, cand{n.Node, c})
				}
			}
		}
	}
	// end a bound session through its check
	_, sessions, _ := w.Store.SessionList(nil, nil)
	var bound, svcBound []*structs.Session
	for _, s := range sessions {
		if len(s.ServiceChecks) > 0 {
			svcBound = append(svcBound, s)
		}
		if len(s.CheckIDs()) > 0 {
			bound = append(bound, s)
		}
	}
	if len(bound) > 0 && chance(t, "bskill", 40) {
		victim := pick(t, "bsvictim", bound)
		if len(svcBound) > 0 && chance(t, "bssvcvictim", 70) {
			victim = pick(t, "bssvcvictimpick", svcBound)
		}
		ids := victim.CheckIDs()
		id := ids[rapid.IntRange(0, len(ids)-1).Draw(t, "bskillcheck")]
		var cur *structs.HealthCheck
		for _, c := range w.NodeChecks(victim.Node, "") {
			if c.CheckID == id {
				cur = c
			}
		}
		switch k := rapid.IntRange(0, 9).Draw(t, "bskillpath"); {
		case k <= 4 && cur != nil: // the check turns critical (anti-entropy sync of the agent)
			cc := cur.Clone()
			cc.Status, cc.RaftIndex = "critical", structs.RaftIndex{}
			reg := &structs.RegisterRequest{Datacenter: fsmDC, Node: victim.Node, SkipNodeUpdate: true, Checks: structs.HealthChecks{cc}, EnterpriseMeta: defaultEM}
			if c, err := FromOp(NewRegister(w.NextIdx(t), reg)); err == nil {
				return c
			}
		case k <= 7 || cur == nil || cur.ServiceID == "":
			if c, err := FromOp(NewDereg(DeregCheck, w.NextIdx(t), victim.Node, string(id), "")); err == nil {
				return c
			}
		default:
			if c, err := FromOp(NewDereg(DeregService, w.NextIdx(t), victim.Node, cur.ServiceID, "")); err == nil {
				return c
			}
		}
		return nil
	}
	if len(cands) == 0 || (len(svcCands) == 0 && chance(t, "bsseedsvc", 60)) {
		// seed: a node with a passing node-level or service-level check
		node := pick(t, "bsnode", Nodes)
		chk := &structs.HealthCheck{Node: node, CheckID: types.CheckID(pick(t, "bscheck", []string{"c1", "c2"})), Status: "passing", EnterpriseMeta: defaultEM}
		chk.Name = string(chk.CheckID)
		reg := &structs.RegisterRequest{Datacenter: fsmDC, Node: node, ID: NodeIDs[node], Address: "10.0.0." + node[1:], Checks: structs.HealthChecks{chk}, EnterpriseMeta: defaultEM}
		if len(svcCands) == 0 || chance(t, "bsseedkind", 50) {
			name := pick(t, "bsseedsvcname", ServiceNames)
			reg.Service = &structs.NodeService{Service: name, ID: name + "-1", Port: 8080, Weights: &structs.Weights{Passing: 1, Warning: 1}, EnterpriseMeta: defaultEM}
			chk.ServiceID, chk.ServiceName = reg.Service.ID, name
		}
		c, err := FromOp(NewRegister(w.NextIdx(t), reg))
		if err != nil {
			return nil
		}
		return c
	}
	id, ok := w.freshSessionID(t)
	if !ok {
		return nil
	}
	w.SessUsed[id] = true
	cd := pick(t, "bscand", cands)
	if len(svcCands) > 0 && chance(t, "bsprefersvc", 65) {
		cd = pick(t, "bssvccand", svcCands)
	}
	sess := &structs.Session{ID: id, Node: cd.node, Name: pick(t, "bsname", SessionNames), Behavior: pick(t, "bsbehavior", []structs.SessionBehavior{structs.SessionKeysRelease, structs.SessionKeysDelete}), EnterpriseMeta: defaultEM}
	if cd.check.ServiceID != "" && chance(t, "bsassvc", 75) {
		sess.ServiceChecks = []structs.ServiceCheck{{ID: string(cd.check.CheckID)}}
	} else {
		sess.NodeChecks = []string{string(cd.check.CheckID)}
	}
	c, err := FromOp(NewSessCreate(w.NextIdx(t), sess))
	if err != nil {
		return nil
	}
	return c
}


// DrawExpiringToken writes a fresh token that carries an expiration time (as the token endpoint stamps it from a TTL).
func (w *FWorld) DrawExpiringToken(t *rapid.T) *FCmd {
	tok := w.newToken(t)
	if tok == nil {
		return nil
	}
	if tok.ExpirationTime == nil {
		exp := tok.CreateTime.Add(time.Duration(rapid.IntRange(1, 24).Draw(t, "exptokttl")) * time.Hour)
		tok.ExpirationTime = &exp
	}
	tok.ServiceIdentities = structs.ACLServiceIdentities{&structs.ACLServiceIdentity{ServiceName: pick(t, "exptoksvc", ServiceNames)}}
	tok.SetHash(true)
	req := &structs.ACLTokenBatchSetRequest{Tokens: structs.ACLTokens{tok}}
	return NewFCmd("acl/token-set", "acl", structs.ACLTokenSetRequestType, w.NextIdx(t), req, fmt.Sprintf("token-set %s expires=%s", short(tok.AccessorID), tok.ExpirationTime.Format(time.RFC3339)))
}

// DrawReap is the leader's token reaper: one batch delete of (up to two of) the tokens that are expired as of the
// leader's clock; nil when there is none.
func (w *FWorld) DrawReap(t *rapid.T) *FCmd {
	var ids []string
	for _, tok := range w.tokens() {
		if tok.HasExpirationTime() && tok.ExpirationTime.Before(w.Clock) && len(ids) < 2 {
			ids = append(ids, tok.AccessorID)
		}
	}
	if len(ids) == 0 {
		return nil
	}
	c := NewFCmd("acl/token-delete", "acl", structs.ACLTokenDeleteRequestType, w.NextIdx(t), &structs.ACLTokenBatchDeleteRequest{TokenIDs: ids}, "token-reap "+shortAll(ids))
	c.RMW, c.Multi = true, len(ids) > 1
	return c
}


// DrawLockDelay drives the lock-delay shape step by step: a session with LockDelay > 0 takes a lock; that session is
// ended (destroy or node deregistration) so the key is released forcefully (or deleted); a few entries later another
// session locks the same key. The lock-delay itself is leader-side, wall-clock state: what a replica answers to the
// committed lock must not depend on it.
func (w *FWorld) DrawLockDelay(t *rapid.T) *FCmd {
	_, sessions, _ := w.Store.SessionList(nil, nil)
	_, ents, _ := w.Store.KVSList(nil, "", nil)
	holder := map[string]string{}
	for _, e := range ents {
		if e.Session != "" {
			holder[e.Session] = e.Key
		}
	}
	var delaySess, delayHolding, others []*structs.Session
	for _, s := range sessions {
		if s.LockDelay > 0 {
			delaySess = append(delaySess, s)
			if holder[s.ID] != "" {
				delayHolding = append(delayHolding, s)
			}
		}
		others = append(others, s)
	}
	mkSession := func(delay time.Duration) *FCmd {
		nodes := w.LiveNodes("")
		if len(nodes) == 0 {
			node := pick(t, "ldnode", Nodes)
			reg := &structs.RegisterRequest{Datacenter: fsmDC, Node: node, ID: NodeIDs[node], Address: "10.0.0." + node[1:], EnterpriseMeta: defaultEM}
			c, _ := FromOp(NewRegister(w.NextIdx(t), reg))
			return c
		}
		id, ok := w.freshSessionID(t)
		if !ok {
			return nil
		}
		w.SessUsed[id] = true
		sess := &structs.Session{ID: id, Node: pick(t, "ldsessnode", nodes).Node, LockDelay: delay, Behavior: pick(t, "ldbehavior", []structs.SessionBehavior{structs.SessionKeysRelease, structs.SessionKeysRelease, structs.SessionKeysDelete}), EnterpriseMeta: defaultEM}
		c, _ := FromOp(NewSessCreate(w.NextIdx(t), sess))
		return c
	}
	// step 3: another session locks a key that was force-released under a lock-delay
	if len(w.delayed) > 0 && chance(t, "ldrelock", 75) {
		key := w.delayed[0]
		if len(others) == 0 {
			return mkSession(0)
		}
		w.delayed = w.delayed[1:]
		s := pick(t, "ldrelocker", others)
		if chance(t, "ldviatxn", 25) {
			c, err := FromOp(NewTxn(w.NextIdx(t), structs.TxnOps{&structs.TxnOp{KV: &structs.TxnKVOp{Verb: api.KVLock, DirEnt: structs.DirEntry{Key: key, Value: []byte("relock"), Session: s.ID, EnterpriseMeta: defaultEM}}}}))
			if err == nil {
				return c
			}
		}
		c, _ := FromOp(NewKV(KVLock, w.NextIdx(t), key, []byte("relock"), 0, 0, s.ID))
		return c
	}
	// step 2: end a lock-delay session that holds a key
	if len(delayHolding) > 0 && chance(t, "ldend", 70) {
		s := pick(t, "ldvictim", delayHolding)
		w.delayed = append(w.delayed, holder[s.ID])
		if chance(t, "ldendbynode", 30) {
			c, _ := FromOp(NewDereg(DeregNode, w.NextIdx(t), s.Node, "", ""))
			return c
		}
		c, _ := FromOp(NewSessDestroy(w.NextIdx(t), s.ID))
		return c
	}
	// step 1: a lock-delay session takes a lock
	if len(delaySess) > 0 {
		s := pick(t, "ldlocker", delaySess)
		key := pick(t, "ldkey", Keys)
		c, _ := FromOp(NewKV(KVLock, w.NextIdx(t), key, []byte("held"), 0, 0, s.ID))
		return c
	}
	return mkSession(pick(t, "lddelay", []time.Duration{15 * time.Second, 15 * time.Second, time.Second, 60 * time.Second}))
}
