//go:build verif

package verifstate

import (
	"bytes"
	"fmt"
	"sort"
	"strings"

	"github.com/hashicorp/consul/agent/structs"
	"github.com/hashicorp/consul/api"
)

// The KV reference model: a sequential versioned map, written from the KV / txn API documentation
// (api-docs/kv, api-docs/txn, docs on sessions), not from kvs.go.
//
//   * a key holds value, flags, lock holder (session), lock counter, create index, modify index;
//   * set keeps holder and counter; a write that changes nothing keeps the modify index;
//   * cas(0) = create only if absent; cas(n) = write only if present and modify index == n;
//   * delete removes (absent key: no-op, success); delete-cas(n) removes iff present and modify == n
//     (absent key: reported as success, nothing changes — asserted by upstream's own tests, and harmless);
//   * delete-tree removes every key that has the prefix (plain string prefix, not path segments);
//   * lock(session): needs an existing session; succeeds iff the key is unlocked or held by the same session;
//     a fresh acquisition raises the counter by one (new key: counter 1), re-acquisition leaves it; the
//     value/flags are written as by set; unlock(session): succeeds iff the key exists and is held by that
//     session; clears the holder, keeps the counter, writes value/flags;
//   * when a session ends, keys it holds are released (holder cleared, same content, modify index = that
//     step) or deleted, by the session's behaviour.

// MEntry is one key of the model.
type MEntry struct {
	Value     []byte
	Flags     uint64
	Session   string
	LockIndex uint64
	Create    uint64
	Modify    uint64
}

// MSess is what the model knows about a live session.
type MSess struct {
	ID       string
	Behavior string // release | delete
	Node     string
}

// KVModel is the reference model.
type KVModel struct {
	KV   map[string]*MEntry
	Sess map[string]*MSess

	// QuirkPlainWriteResetsLockIndex makes the model follow known finding
	// "C03/plain-write-resets-lock-index": a plain set / cas on an existing key stores lock counter 0.
	// Only switched on while that finding is listed as known; OnQuirk is called whenever the quirk changes the outcome.
	QuirkPlainWriteResetsLockIndex bool
	OnQuirk                        func()
}

func NewKVModel() *KVModel {
	return &KVModel{KV: map[string]*MEntry{}, Sess: map[string]*MSess{}}
}

func (m *KVModel) Clone() *KVModel {
	c := NewKVModel()
	c.QuirkPlainWriteResetsLockIndex, c.OnQuirk = m.QuirkPlainWriteResetsLockIndex, m.OnQuirk
	for k, e := range m.KV {
		ce := *e
		ce.Value = append([]byte(nil), e.Value...)
		c.KV[k] = &ce
	}
	for k, s := range m.Sess {
		cs := *s
		c.Sess[k] = &cs
	}
	return c
}

// Verdict is what the model expects an operation to report.
type Verdict struct {
	OK  bool // boolean result / absence of error
	Err bool // an error (not just "false") is expected
}

func valEq(a, b []byte) bool { return bytes.Equal(a, b) }

func (m *KVModel) write(idx uint64, key string, value []byte, flags uint64, session string, lockIndex uint64, exists bool) {
	e := m.KV[key]
	if e == nil {
		m.KV[key] = &MEntry{Value: append([]byte(nil), value...), Flags: flags, Session: session, LockIndex: lockIndex, Create: idx, Modify: idx}
		return
	}
	if valEq(e.Value, value) && e.Flags == flags && e.Session == session && e.LockIndex == lockIndex {
		return // nothing changes: modify index stays
	}
	e.Value = append([]byte(nil), value...)
	e.Flags = flags
	e.Session = session
	e.LockIndex = lockIndex
	e.Modify = idx
}

func (m *KVModel) Set(idx uint64, key string, value []byte, flags uint64) Verdict {
	e := m.KV[key]
	if e == nil {
		m.write(idx, key, value, flags, "", 0, false)
	} else {
		li := e.LockIndex
		if m.QuirkPlainWriteResetsLockIndex && li != 0 {
			li = 0
			if m.OnQuirk != nil {
				m.OnQuirk()
			}
		}
		m.write(idx, key, value, flags, e.Session, li, true)
	}
	return Verdict{OK: true}
}

func (m *KVModel) CAS(idx uint64, key string, value []byte, flags uint64, cas uint64) Verdict {
	e := m.KV[key]
	switch {
	case cas == 0 && e != nil:
		return Verdict{}
	case cas != 0 && (e == nil || e.Modify != cas):
		return Verdict{}
	}
	return m.Set(idx, key, value, flags)
}

func (m *KVModel) Delete(idx uint64, key string) Verdict {
	delete(m.KV, key)
	return Verdict{OK: true}
}

func (m *KVModel) DeleteCAS(idx uint64, key string, cas uint64) Verdict {
	e := m.KV[key]
	if e == nil {
		return Verdict{OK: true}
	}
	if e.Modify != cas {
		return Verdict{}
	}
	delete(m.KV, key)
	return Verdict{OK: true}
}

func (m *KVModel) DeleteTree(idx uint64, prefix string) Verdict {
	for k := range m.KV {
		if strings.HasPrefix(k, prefix) {
			delete(m.KV, k)
		}
	}
	return Verdict{OK: true}
}

func (m *KVModel) Lock(idx uint64, key string, value []byte, flags uint64, session string) Verdict {
	if session == "" {
		return Verdict{Err: true}
	}
	if m.Sess[session] == nil {
		return Verdict{Err: true}
	}
	e := m.KV[key]
	switch {
	case e == nil:
		m.write(idx, key, value, flags, session, 1, false)
	case e.Session == session:
		m.write(idx, key, value, flags, session, e.LockIndex, true)
	case e.Session != "":
		return Verdict{}
	default:
		m.write(idx, key, value, flags, session, e.LockIndex+1, true)
	}
	return Verdict{OK: true}
}

func (m *KVModel) Unlock(idx uint64, key string, value []byte, flags uint64, session string) Verdict {
	if session == "" {
		return Verdict{Err: true}
	}
	e := m.KV[key]
	if e == nil || e.Session != session {
		return Verdict{}
	}
	m.write(idx, key, value, flags, "", e.LockIndex, true)
	return Verdict{OK: true}
}

// SessionEnded applies the session's behaviour to the keys it holds.
func (m *KVModel) SessionEnded(idx uint64, id string) {
	s := m.Sess[id]
	if s == nil {
		return
	}
	delete(m.Sess, id)
	for k, e := range m.KV {
		if e.Session != id {
			continue
		}
		if s.Behavior == string(structs.SessionKeysDelete) {
			delete(m.KV, k)
		} else {
			e.Session = ""
			e.Modify = idx
		}
	}
}

// Keys returns the sorted keys with the prefix.
func (m *KVModel) Keys(prefix string) []string {
	var out []string
	for k := range m.KV {
		if strings.HasPrefix(k, prefix) {
			out = append(out, k)
		}
	}
	sort.Strings(out)
	return out
}

// CompareEntry compares a store entry with the model entry; returns "" if equal.
func (m *KVModel) CompareEntry(key string, got *structs.DirEntry) string {
	want := m.KV[key]
	switch {
	case want == nil && got == nil:
		return ""
	case want == nil:
		return fmt.Sprintf("key %q: store has %s, model has nothing", key, fmtEntry(got))
	case got == nil:
		return fmt.Sprintf("key %q: store has nothing, model has %+v", key, *want)
	}
	var diffs []string
	if !valEq(got.Value, want.Value) {
		diffs = append(diffs, fmt.Sprintf("Value %q != %q", got.Value, want.Value))
	}
	if got.Flags != want.Flags {
		diffs = append(diffs, fmt.Sprintf("Flags %d != %d", got.Flags, want.Flags))
	}
	if got.Session != want.Session {
		diffs = append(diffs, fmt.Sprintf("Session %q != %q", got.Session, want.Session))
	}
	if got.LockIndex != want.LockIndex {
		diffs = append(diffs, fmt.Sprintf("LockIndex %d != %d", got.LockIndex, want.LockIndex))
	}
	if got.CreateIndex != want.Create {
		diffs = append(diffs, fmt.Sprintf("CreateIndex %d != %d", got.CreateIndex, want.Create))
	}
	if got.ModifyIndex != want.Modify {
		diffs = append(diffs, fmt.Sprintf("ModifyIndex %d != %d", got.ModifyIndex, want.Modify))
	}
	if len(diffs) == 0 {
		return ""
	}
	return fmt.Sprintf("key %q: %s (store vs model)", key, strings.Join(diffs, ", "))
}

// FirstDiffField names the first differing field (for signatures).
func (m *KVModel) FirstDiffField(key string, got *structs.DirEntry) string {
	want := m.KV[key]
	switch {
	case want == nil && got == nil:
		return ""
	case want == nil:
		return "resurrected"
	case got == nil:
		return "lost"
	case !valEq(got.Value, want.Value):
		return "Value"
	case got.Flags != want.Flags:
		return "Flags"
	case got.Session != want.Session:
		return "Session"
	case got.LockIndex != want.LockIndex:
		return "LockIndex"
	case got.CreateIndex != want.Create:
		return "CreateIndex"
	case got.ModifyIndex != want.Modify:
		return "ModifyIndex"
	}
	return ""
}

func fmtEntry(e *structs.DirEntry) string {
	return fmt.Sprintf("{v=%q f=%d sess=%q li=%d c=%d m=%d}", e.Value, e.Flags, e.Session, e.LockIndex, e.CreateIndex, e.ModifyIndex)
}

// AdoptEntry overwrites the model entry with the store's (re-synchronisation after a tolerated finding).
func (m *KVModel) AdoptEntry(key string, got *structs.DirEntry) {
	if got == nil {
		delete(m.KV, key)
		return
	}
	m.KV[key] = &MEntry{Value: append([]byte(nil), got.Value...), Flags: got.Flags, Session: got.Session, LockIndex: got.LockIndex, Create: got.CreateIndex, Modify: got.ModifyIndex}
}

// TxnKVVerdict executes one KV txn verb on the model. ok=false means the verb fails (the txn must abort).
// For read verbs the expected entry/entries are returned for result comparison.
func (m *KVModel) TxnKV(idx uint64, op *structs.TxnKVOp) (ok bool, reads []string) {
	d := op.DirEnt
	switch op.Verb {
	case api.KVSet:
		return m.Set(idx, d.Key, d.Value, d.Flags).OK, []string{d.Key}
	case api.KVDelete:
		return m.Delete(idx, d.Key).OK, nil
	case api.KVDeleteCAS:
		return m.DeleteCAS(idx, d.Key, d.ModifyIndex).OK, nil
	case api.KVDeleteTree:
		return m.DeleteTree(idx, d.Key).OK, nil
	case api.KVCAS:
		return m.CAS(idx, d.Key, d.Value, d.Flags, d.ModifyIndex).OK, []string{d.Key}
	case api.KVLock:
		return m.Lock(idx, d.Key, d.Value, d.Flags, d.Session).OK, []string{d.Key}
	case api.KVUnlock:
		return m.Unlock(idx, d.Key, d.Value, d.Flags, d.Session).OK, []string{d.Key}
	case api.KVGet:
		return m.KV[d.Key] != nil, []string{d.Key}
	case api.KVGetOrEmpty:
		return true, []string{d.Key}
	case api.KVGetTree:
		return true, m.Keys(d.Key)
	case api.KVCheckSession:
		e := m.KV[d.Key]
		return e != nil && e.Session == d.Session, []string{d.Key}
	case api.KVCheckIndex:
		e := m.KV[d.Key]
		return e != nil && e.Modify == d.ModifyIndex, []string{d.Key}
	case api.KVCheckNotExists:
		return m.KV[d.Key] == nil, nil
	}
	panic("verifstate: unknown KV verb " + string(op.Verb))
}
