//go:build verif

package verifstate

import (
	"fmt"
	"sort"
	"sync"
	"time"

	"github.com/hashicorp/consul/agent/consul/state"
	"github.com/hashicorp/consul/agent/netutil"
	"github.com/hashicorp/consul/agent/structs"
	"github.com/hashicorp/consul/api"
	"github.com/hashicorp/consul/types"
	"github.com/hashicorp/serf/coordinate"
	"pgregory.net/rapid"
)

// ---- the name universe (small on purpose: collisions, re-creation, prefix relations happen constantly)

var (
	Nodes   = []string{"n1", "n2", "n3"}
	NodeIDs = map[string]types.NodeID{
		"n1": "11111111-1111-4111-8111-111111111111",
		"n2": "22222222-2222-4222-8222-222222222222",
		"n3": "33333333-3333-4333-8333-333333333333",
	}
	SpareNodeID  = types.NodeID("44444444-4444-4444-8444-444444444444")
	ServiceNames = []string{"web", "api", "db"}
	CheckIDs     = []string{"c1", "c2", "c3", "serfHealth"}
	Peers        = []string{"", "peerA"}
	Keys         = []string{"a", "a/", "a/b", "a/b/", "a/bc", "a/b/c", "ab", "é/ü", "b", "a/b/é"}
	Prefixes     = []string{"", "a", "a/", "a/b", "a/b/", "a/bc", "ab", "é", "é/", "b", "zz"}
	SessionNames = []string{"", "sa", "sb"}
	PQIDs        = []string{"a0000000-0000-4000-8000-000000000001", "a0000000-0000-4000-8000-000000000002", "a0000000-0000-4000-8000-000000000003"}
)

// SessionPool returns n deterministic session UUIDs.
func SessionPool(n int) []string {
	out := make([]string, n)
	for i := range out {
		out[i] = fmt.Sprintf("5e550000-0000-4000-8000-%012d", i+1)
	}
	return out
}

var stubOnce sync.Once

// StubNet makes virtual-IP allocation independent of a running agent (as upstream tests do).
func StubNet() {
	stubOnce.Do(func() {
		netutil.GetAgentBindAddrFunc = netutil.GetMockGetAgentBindAddrFunc("0.0.0.0")
	})
}

// World is the system under test plus the bookkeeping the generator needs.
type World struct {
	Store    *state.Store
	Idx      uint64
	SessPool []string
	SessUsed map[string]bool // IDs that were created at some point (never reused: the endpoint always mints fresh IDs)
}

// NewWorld wraps a store. Raft indexes start at 10 (real clusters never apply user commands at 0/1).
func NewWorld(s *state.Store) *World {
	StubNet()
	return &World{Store: s, Idx: 10, SessPool: SessionPool(8), SessUsed: map[string]bool{}}
}

// NextIdx advances the raft index by 1..3.
func (w *World) NextIdx(t *rapid.T) uint64 {
	w.Idx += uint64(rapid.IntRange(1, 3).Draw(t, "didx"))
	return w.Idx
}

// ---- views of the current store used to aim the generator (not part of any oracle)

func (w *World) LiveSessions() []string {
	_, ss, _ := w.Store.SessionList(nil, nil)
	var out []string
	for _, s := range ss {
		out = append(out, s.ID)
	}
	sort.Strings(out)
	return out
}

func (w *World) LiveNodes(peer string) []*structs.Node {
	_, ns, _ := w.Store.Nodes(nil, nil, peer)
	return ns
}

func (w *World) NodeServices(node, peer string) []*structs.NodeService {
	_, nsl, _ := w.Store.NodeServiceList(nil, node, nil, peer)
	if nsl == nil {
		return nil
	}
	return nsl.Services
}

func (w *World) NodeChecks(node, peer string) structs.HealthChecks {
	_, cs, _ := w.Store.NodeChecks(nil, node, nil, peer)
	return cs
}

func (w *World) KVEntry(key string) *structs.DirEntry {
	_, e, _ := w.Store.KVSGet(nil, key, nil)
	return e
}

// Cfg selects which op families a machine draws and how often.
type Cfg struct {
	KV, Session, Reap, Catalog, Dereg, Txn, TxnRO, PQ, Config, Coord, SysMeta, Killer int // weights
	TxnCatalog   bool // txn may contain node/service/check/session verbs
	Peers        bool // peer-scoped registrations
	Connect      bool // proxies, native, gateways
	Rename       bool // node rename by ID
	SessionChecks bool
	MaxTxnOps    int
}

func pick[T any](t *rapid.T, label string, xs []T) T {
	return xs[rapid.IntRange(0, len(xs)-1).Draw(t, label)]
}

func chance(t *rapid.T, label string, pct int) bool {
	return rapid.IntRange(0, 99).Draw(t, label) < pct
}

// DrawOp draws one op according to cfg.
func (w *World) DrawOp(t *rapid.T, cfg *Cfg) *Op {
	type fam struct {
		w int
		f func() *Op
	}
	fams := []fam{
		{cfg.KV, func() *Op { return w.DrawKV(t) }},
		{cfg.Session, func() *Op { return w.DrawSession(t, cfg) }},
		{cfg.Reap, func() *Op { return NewReap(w.NextIdx(t), w.drawOldIndex(t)) }},
		{cfg.Catalog, func() *Op { return w.DrawRegister(t, cfg) }},
		{cfg.Dereg, func() *Op { return w.DrawDereg(t, cfg) }},
		{cfg.Txn, func() *Op { return w.DrawTxn(t, cfg, -1) }},
		{cfg.TxnRO, func() *Op { return w.DrawTxnRO(t, cfg) }},
		{cfg.PQ, func() *Op { return w.DrawPQ(t) }},
		{cfg.Config, func() *Op { return w.DrawConfig(t) }},
		{cfg.Coord, func() *Op { return w.DrawCoord(t) }},
		{cfg.SysMeta, func() *Op { return w.DrawSysMeta(t) }},
		{cfg.Killer, func() *Op { return w.DrawSessionKiller(t, cfg) }},
	}
	total := 0
	for _, f := range fams {
		total += f.w
	}
	x := rapid.IntRange(0, total-1).Draw(t, "family")
	for _, f := range fams {
		if x < f.w {
			return f.f()
		}
		x -= f.w
	}
	panic("unreachable")
}

func (w *World) drawOldIndex(t *rapid.T) uint64 {
	switch rapid.IntRange(0, 3).Draw(t, "reapwhich") {
	case 0:
		return w.Idx
	case 1:
		return w.Idx / 2
	case 2:
		return uint64(rapid.IntRange(0, int(w.Idx)+3).Draw(t, "reapidx"))
	}
	return w.Idx - 1
}

// ---- KV

func (w *World) drawValue(t *rapid.T) []byte {
	switch rapid.IntRange(0, 4).Draw(t, "valkind") {
	case 0:
		return nil
	case 1:
		return []byte("v1")
	case 2:
		return []byte("v2")
	case 3:
		return []byte{}
	}
	return rapid.SliceOfN(rapid.Byte(), 0, 4).Draw(t, "val")
}

func (w *World) drawFlags(t *rapid.T) uint64 {
	return pick(t, "flags", []uint64{0, 0, 1, 42})
}

// drawCASIndex aims at the interesting supplied indexes for a key.
func (w *World) drawCASIndex(t *rapid.T, cur *structs.DirEntry) uint64 {
	var curIdx, createIdx uint64
	if cur != nil {
		curIdx, createIdx = cur.ModifyIndex, cur.CreateIndex
	}
	switch rapid.IntRange(0, 6).Draw(t, "caskind") {
	case 0:
		return 0
	case 1, 2:
		return curIdx
	case 3:
		if curIdx > 0 {
			return curIdx - 1
		}
		return 1
	case 4:
		return createIdx
	case 5:
		return curIdx + 1
	}
	return 999999
}

func (w *World) drawSessionRef(t *rapid.T) string {
	live := w.LiveSessions()
	k := rapid.IntRange(0, 9).Draw(t, "sessref")
	switch {
	case k < 6 && len(live) > 0:
		return pick(t, "livesess", live)
	case k < 8:
		return pick(t, "poolsess", w.SessPool) // maybe destroyed, maybe never created
	case k == 8:
		return ""
	}
	return "5e55ffff-ffff-4fff-8fff-ffffffffffff" // never created
}

// drawStraySession: a plain set / cas may carry a Session field (RPC and txn API pass it through); the store must
// ignore it — the holder only changes through lock / unlock.
func (w *World) drawStraySession(t *rapid.T) string {
	if !chance(t, "straysession", 12) {
		return ""
	}
	return w.drawSessionRef(t)
}

// DrawKV draws one KV write.
func (w *World) DrawKV(t *rapid.T) *Op {
	kinds := []string{KVSet, KVSet, KVCAS, KVCAS, KVDelete, KVDeleteCAS, KVDeleteTree, KVLock, KVLock, KVUnlock}
	if len(w.LiveSessions()) > 0 {
		kinds = append(kinds, KVLock, KVLock, KVLock, KVUnlock)
	}
	kind := pick(t, "kvkind", kinds)
	idx := w.NextIdx(t)
	if kind == KVDeleteTree {
		return NewKV(kind, idx, pick(t, "prefix", Prefixes), nil, 0, 0, "")
	}
	key := pick(t, "key", Keys)
	cur := w.KVEntry(key)
	switch kind {
	case KVSet:
		v, f := w.drawValue(t), w.drawFlags(t)
		if cur != nil && chance(t, "sameval", 25) { // aim at the no-op write
			v, f = cur.Value, cur.Flags
		}
		return NewKV(kind, idx, key, v, f, 0, w.drawStraySession(t))
	case KVCAS:
		v, f := w.drawValue(t), w.drawFlags(t)
		if cur != nil && chance(t, "sameval", 20) {
			v, f = cur.Value, cur.Flags
		}
		return NewKV(kind, idx, key, v, f, w.drawCASIndex(t, cur), w.drawStraySession(t))
	case KVDelete:
		return NewKV(kind, idx, key, nil, 0, 0, "")
	case KVDeleteCAS:
		return NewKV(kind, idx, key, nil, 0, w.drawCASIndex(t, cur), "")
	case KVLock, KVUnlock:
		sess := w.drawSessionRef(t)
		if cur != nil && cur.Session != "" && chance(t, "holder", 50) {
			sess = cur.Session
		}
		if kind == KVUnlock && chance(t, "heldkey", 60) { // aim at a key that is actually held
			if _, ents, _ := w.Store.KVSList(nil, "", nil); len(ents) > 0 {
				var held []*structs.DirEntry
				for _, e := range ents {
					if e.Session != "" {
						held = append(held, e)
					}
				}
				if len(held) > 0 {
					h := pick(t, "heldpick", held)
					key, cur, sess = h.Key, h, h.Session
				}
			}
		}
		v, f := w.drawValue(t), w.drawFlags(t)
		if cur != nil && chance(t, "sameval", 30) {
			v, f = cur.Value, cur.Flags
		}
		return NewKV(kind, idx, key, v, f, 0, sess)
	}
	panic("unreachable")
}

// ---- sessions

func (w *World) freshSessionID(t *rapid.T) (string, bool) {
	var free []string
	for _, id := range w.SessPool {
		if !w.SessUsed[id] {
			free = append(free, id)
		}
	}
	if len(free) == 0 {
		return "", false
	}
	return free[0], true
}

// DrawSession draws a session create or destroy.
func (w *World) DrawSession(t *rapid.T, cfg *Cfg) *Op {
	live := w.LiveSessions()
	id, haveFresh := w.freshSessionID(t)
	if !haveFresh || (len(live) > 0 && chance(t, "destroy", 35)) {
		target := w.drawSessionRef(t)
		if len(live) > 0 && chance(t, "destroylive", 85) {
			target = pick(t, "livesess", live)
		}
		if target == "" {
			target = w.SessPool[0]
		}
		return NewSessDestroy(w.NextIdx(t), target)
	}
	w.SessUsed[id] = true
	node := pick(t, "sessnode", Nodes)
	if ns := w.LiveNodes(""); len(ns) > 0 && chance(t, "livenode", 85) {
		node = pick(t, "sessnode2", ns).Node
	}
	sess := &structs.Session{
		ID:       id,
		Name:     pick(t, "sessname", SessionNames),
		Node:     node,
		Behavior: pick(t, "behavior", []structs.SessionBehavior{"", structs.SessionKeysRelease, structs.SessionKeysRelease, structs.SessionKeysDelete, structs.SessionKeysDelete}),
		EnterpriseMeta: defaultEM,
	}
	if chance(t, "badbehavior", 2) {
		sess.Behavior = "bogus"
	}
	if chance(t, "lockdelay", 30) {
		sess.LockDelay = 15 * time.Second
	}
	if cfg.SessionChecks {
		checks := w.NodeChecks(node, "")
		n := rapid.IntRange(0, 2).Draw(t, "nsesschecks")
		if len(checks) > 0 && n == 0 && chance(t, "bindanyway", 60) {
			n = 1
		}
		for i := 0; i < n; i++ {
			var cid string
			if len(checks) > 0 && chance(t, "livecheck", 85) {
				cid = string(pick(t, "sesscheck", checks).CheckID)
			} else {
				cid = pick(t, "sesscheck2", CheckIDs)
			}
			dup := false
			for _, c := range sess.NodeChecks {
				dup = dup || c == cid
			}
			for _, c := range sess.ServiceChecks {
				dup = dup || c.ID == cid
			}
			if dup {
				continue
			}
			if chance(t, "assvccheck", 30) {
				sess.ServiceChecks = append(sess.ServiceChecks, structs.ServiceCheck{ID: cid, Namespace: ""})
			} else {
				sess.NodeChecks = append(sess.NodeChecks, cid)
			}
		}
	}
	return NewSessCreate(w.NextIdx(t), sess)
}

// ---- catalog

func (w *World) drawService(t *rapid.T, cfg *Cfg) *structs.NodeService {
	name := pick(t, "svcname", ServiceNames)
	inst := pick(t, "inst", []string{"1", "1", "2"})
	svc := &structs.NodeService{
		Service:        name,
		ID:             name + "-" + inst,
		Port:           pick(t, "port", []int{8080, 8080, 9090}),
		Tags:           pick(t, "tags", [][]string{nil, {"a"}, {"a", "b"}, {"b"}}),
		Weights:        &structs.Weights{Passing: 1, Warning: 1},
		EnterpriseMeta: defaultEM,
	}
	if chance(t, "svcmeta", 20) {
		svc.Meta = map[string]string{"ver": pick(t, "ver", []string{"1", "2"})}
	}
	if chance(t, "svcaddr", 20) {
		svc.Address = pick(t, "saddr", []string{"10.1.0.1", "10.1.0.2"})
	}
	if chance(t, "tagoverride", 10) {
		svc.EnableTagOverride = true
	}
	if chance(t, "svclocality", 10) {
		svc.Locality = drawLocality(t)
	}
	if !cfg.Connect {
		if chance(t, "consulsvc", 4) {
			svc.Service, svc.ID = "consul", "consul"
		}
		return svc
	}
	switch rapid.IntRange(0, 11).Draw(t, "svckind") {
	case 0, 1, 2, 3: // typical
	case 4, 5, 6: // sidecar proxy
		dst := name
		svc.Kind = structs.ServiceKindConnectProxy
		svc.Service = dst + "-proxy"
		svc.ID = dst + "-proxy-" + inst
		svc.Port = 20000 + len(dst)
		svc.Proxy = structs.ConnectProxyConfig{DestinationServiceName: dst}
		if chance(t, "destid", 50) {
			svc.Proxy.DestinationServiceID = dst + "-" + inst
		}
		nu := rapid.IntRange(0, 2).Draw(t, "nups")
		for i := 0; i < nu; i++ {
			up := pick(t, "upname", ServiceNames)
			dupl := false
			for _, u := range svc.Proxy.Upstreams {
				dupl = dupl || u.DestinationName == up
			}
			if dupl {
				continue
			}
			u := structs.Upstream{DestinationType: structs.UpstreamDestTypeService, DestinationName: up, LocalBindPort: 9000 + i}
			if cfg.Peers && chance(t, "uppeer", 15) {
				u.DestinationPeer = "peerA"
			}
			svc.Proxy.Upstreams = append(svc.Proxy.Upstreams, u)
		}
	case 7: // connect native
		svc.Connect.Native = true
	case 8:
		svc.Kind, svc.Service, svc.ID, svc.Port = structs.ServiceKindIngressGateway, "ingress-gw", "ingress-gw-"+inst, 8443
	case 9:
		svc.Kind, svc.Service, svc.ID, svc.Port = structs.ServiceKindTerminatingGateway, "term-gw", "term-gw-"+inst, 8444
	case 10:
		svc.Kind, svc.Service, svc.ID, svc.Port = structs.ServiceKindMeshGateway, "mesh-gw", "mesh-gw-"+inst, 8445
	case 11:
		svc.Service, svc.ID = "consul", "consul"
	}
	return svc
}

func (w *World) drawCheck(t *rapid.T, node, peer string, svc *structs.NodeService) *structs.HealthCheck {
	c := &structs.HealthCheck{
		Node:           node,
		CheckID:        types.CheckID(pick(t, "checkid", CheckIDs)),
		Status:         pick(t, "status", []string{api.HealthPassing, api.HealthPassing, api.HealthPassing, api.HealthWarning, api.HealthCritical, api.HealthCritical, ""}), // "" is stored as critical
		PeerName:       peer,
		EnterpriseMeta: defaultEM,
	}
	c.Name = string(c.CheckID)
	if chance(t, "output", 25) {
		c.Output = pick(t, "outputv", []string{"ok", "bad"})
	}
	if c.CheckID != "serfHealth" {
		k := rapid.IntRange(0, 9).Draw(t, "checksvc")
		existing := w.NodeServices(node, peer)
		switch {
		case k < 3 && svc != nil:
			c.ServiceID, c.ServiceName = svc.ID, svc.Service
		case k < 5 && len(existing) > 0:
			s := pick(t, "checksvc2", existing)
			c.ServiceID, c.ServiceName = s.ID, s.Service
		case k == 5:
			c.ServiceID = "missing-1" // refused: ErrMissingService
		}
	}
	switch rapid.IntRange(0, 7).Draw(t, "checktype") {
	case 0:
		c.Type = "ttl"
	case 1:
		c.Type = "session"
		c.Definition.SessionName = pick(t, "checksessname", []string{"sa", "sb"})
	}
	return c
}

func drawLocality(t *rapid.T) *structs.Locality {
	l := pick(t, "locality", []structs.Locality{
		{Region: "us-west-1", Zone: "us-west-1a"}, {Region: "us-west-1", Zone: "us-west-1b"}, {Region: "us-east-1"},
	})
	return &l
}

// DrawRegister draws a catalog registration shaped as Catalog.Register leaves it before raft apply.
func (w *World) DrawRegister(t *rapid.T, cfg *Cfg) *Op {
	peer := ""
	if cfg.Peers && chance(t, "peerreg", 25) {
		peer = "peerA"
	}
	node := pick(t, "node", Nodes)
	req := &structs.RegisterRequest{
		Datacenter:     "dc1",
		Node:           node,
		ID:             NodeIDs[node],
		Address:        "10.0.0." + node[1:],
		PeerName:       peer,
		EnterpriseMeta: defaultEM,
	}
	switch rapid.IntRange(0, 19).Draw(t, "nodeshape") {
	case 0:
		req.ID = "" // legacy node without ID
	case 1:
		req.Address = "10.0.9." + node[1:] // address change
	case 2:
		req.NodeMeta = map[string]string{"rack": pick(t, "rack", []string{"r1", "r2"})}
	case 3:
		if cfg.Rename { // rename: an existing node's ID under another name
			if ns := w.LiveNodes(peer); len(ns) > 0 {
				src := pick(t, "renamesrc", ns)
				if src.ID != "" {
					req.ID = src.ID
				}
			}
		}
	case 4:
		if cfg.Rename {
			req.ID = SpareNodeID
		}
	case 5:
		req.SkipNodeUpdate = true
	case 6, 7:
		req.Locality = drawLocality(t)
	}
	if chance(t, "withsvc", 70) {
		req.Service = w.drawService(t, cfg)
		req.Service.PeerName = peer
	}
	nc := pick(t, "nchecks", []int{0, 0, 1, 1, 2})
	seen := map[types.CheckID]bool{}
	for i := 0; i < nc; i++ {
		c := w.drawCheck(t, node, peer, req.Service)
		if seen[c.CheckID] {
			continue
		}
		seen[c.CheckID] = true
		req.Checks = append(req.Checks, c)
	}
	return NewRegister(w.NextIdx(t), req)
}

// DrawDereg draws a node / service / check deregistration (mostly of existing entries).
func (w *World) DrawDereg(t *rapid.T, cfg *Cfg) *Op {
	peer := ""
	if cfg.Peers && chance(t, "peerdereg", 25) {
		peer = "peerA"
	}
	node := pick(t, "node", Nodes)
	if ns := w.LiveNodes(peer); len(ns) > 0 && chance(t, "livenode", 85) {
		node = pick(t, "node2", ns).Node
	}
	switch rapid.IntRange(0, 9).Draw(t, "deregkind") {
	case 0, 1:
		return NewDereg(DeregNode, w.NextIdx(t), node, "", peer)
	case 2, 3, 4, 5:
		id := pick(t, "svcname", ServiceNames) + "-1"
		if ss := w.NodeServices(node, peer); len(ss) > 0 && chance(t, "livesvc", 85) {
			id = pick(t, "svc2", ss).ID
		}
		return NewDereg(DeregService, w.NextIdx(t), node, id, peer)
	default:
		id := pick(t, "checkid", CheckIDs)
		if cs := w.NodeChecks(node, peer); len(cs) > 0 && chance(t, "livecheck", 85) {
			id = string(pick(t, "check2", cs).CheckID)
		}
		return NewDereg(DeregCheck, w.NextIdx(t), node, id, peer)
	}
}

// ---- transactions

// DrawTxnKVOp draws one KV verb for a transaction.
func (w *World) DrawTxnKVOp(t *rapid.T) *structs.TxnOp {
	verb := pick(t, "kvverb", []api.KVOp{api.KVSet, api.KVSet, api.KVCAS, api.KVDelete, api.KVDeleteCAS, api.KVDeleteTree, api.KVLock, api.KVUnlock,
		api.KVGet, api.KVGetOrEmpty, api.KVGetTree, api.KVCheckSession, api.KVCheckIndex, api.KVCheckNotExists})
	key := pick(t, "key", Keys)
	if verb == api.KVDeleteTree || verb == api.KVGetTree {
		key = pick(t, "prefix", Prefixes)
		if key == "" && verb == api.KVGetTree {
			key = "a" // kvsPreApply refuses an empty key for every verb but delete-tree
		}
	}
	cur := w.KVEntry(key)
	d := structs.DirEntry{Key: key, EnterpriseMeta: defaultEM}
	switch verb {
	case api.KVSet, api.KVCAS, api.KVLock, api.KVUnlock:
		d.Value, d.Flags = w.drawValue(t), w.drawFlags(t)
	}
	switch verb {
	case api.KVCAS, api.KVDeleteCAS, api.KVCheckIndex:
		d.ModifyIndex = w.drawCASIndex(t, cur)
		if verb == api.KVCheckIndex && cur != nil && chance(t, "match", 50) {
			d.ModifyIndex = cur.ModifyIndex
		}
	case api.KVLock, api.KVUnlock, api.KVCheckSession:
		d.Session = w.drawSessionRef(t)
		if cur != nil && cur.Session != "" && chance(t, "holder", 50) {
			d.Session = cur.Session
		}
		if verb == api.KVCheckSession && d.Session == "" {
			d.Session = w.SessPool[0]
		}
	case api.KVSet:
		d.Session = w.drawStraySession(t)
	}
	if verb == api.KVCAS {
		d.Session = w.drawStraySession(t)
	}
	return &structs.TxnOp{KV: &structs.TxnKVOp{Verb: verb, DirEnt: d}}
}

func (w *World) drawTxnCatalogOp(t *rapid.T, cfg *Cfg) *structs.TxnOp {
	node := pick(t, "node", Nodes)
	if ns := w.LiveNodes(""); len(ns) > 0 && chance(t, "livenode", 80) {
		node = pick(t, "node2", ns).Node
	}
	_, curNode, _ := w.Store.GetNode(node, nil, "")
	casIdx := func(cur uint64) uint64 {
		switch rapid.IntRange(0, 4).Draw(t, "catcas") {
		case 0:
			return 0
		case 1, 2:
			return cur
		case 3:
			if cur > 0 {
				return cur - 1
			}
			return 7
		}
		return cur + 1
	}
	switch rapid.IntRange(0, 9).Draw(t, "catfam") {
	case 0, 1, 2: // node
		verb := pick(t, "nodeverb", []api.NodeOp{api.NodeGet, api.NodeSet, api.NodeCAS, api.NodeDelete, api.NodeDeleteCAS})
		n := structs.Node{Node: node, ID: NodeIDs[node], Address: "10.0.0." + node[1:], Datacenter: "dc1", Partition: ""}
		if chance(t, "nodeaddr", 30) {
			n.Address = "10.0.8." + node[1:]
		}
		if verb == api.NodeCAS || verb == api.NodeDeleteCAS {
			var cur uint64
			if curNode != nil {
				cur = curNode.ModifyIndex
			}
			n.ModifyIndex = casIdx(cur)
		}
		return &structs.TxnOp{Node: &structs.TxnNodeOp{Verb: verb, Node: n}}
	case 3, 4, 5: // service
		verb := pick(t, "svcverb", []api.ServiceOp{api.ServiceGet, api.ServiceSet, api.ServiceCAS, api.ServiceDelete, api.ServiceDeleteCAS})
		svc := w.drawService(t, cfg)
		existing := w.NodeServices(node, "")
		if len(existing) > 0 && chance(t, "livesvc", 70) {
			e := pick(t, "svc2", existing)
			if verb == api.ServiceSet || verb == api.ServiceCAS {
				if e.Kind == svc.Kind && e.Service == svc.Service {
					svc.ID = e.ID
				}
			} else {
				svc = &structs.NodeService{ID: e.ID, Service: e.Service, EnterpriseMeta: defaultEM}
			}
		}
		if verb == api.ServiceCAS || verb == api.ServiceDeleteCAS {
			var cur uint64
			for _, e := range existing {
				if e.ID == svc.ID {
					cur = e.ModifyIndex
				}
			}
			svc.ModifyIndex = casIdx(cur)
		}
		return &structs.TxnOp{Service: &structs.TxnServiceOp{Verb: verb, Node: node, Service: *svc}}
	case 6, 7, 8: // check
		verb := pick(t, "checkverb", []api.CheckOp{api.CheckGet, api.CheckSet, api.CheckCAS, api.CheckDelete, api.CheckDeleteCAS})
		c := w.drawCheck(t, node, "", nil)
		existing := w.NodeChecks(node, "")
		if len(existing) > 0 && chance(t, "livecheck", 70) {
			e := pick(t, "check2", existing)
			c.CheckID, c.Name = e.CheckID, e.Name
			if chance(t, "keepsvc", 70) {
				c.ServiceID, c.ServiceName = e.ServiceID, e.ServiceName
			}
		}
		if verb == api.CheckCAS || verb == api.CheckDeleteCAS {
			var cur uint64
			for _, e := range existing {
				if e.CheckID == c.CheckID {
					cur = e.ModifyIndex
				}
			}
			c.ModifyIndex = casIdx(cur)
		}
		return &structs.TxnOp{Check: &structs.TxnCheckOp{Verb: verb, Check: *c}}
	default: // session delete
		id := w.drawSessionRef(t)
		if id == "" {
			id = w.SessPool[0]
		}
		return &structs.TxnOp{Session: &structs.TxnSessionOp{Verb: api.SessionDelete, Session: structs.Session{ID: id, EnterpriseMeta: defaultEM}}}
	}
}

// DrawTxn draws a read-write transaction of 1..MaxTxnOps ops.
func (w *World) DrawTxn(t *rapid.T, cfg *Cfg, _ int) *Op {
	max := cfg.MaxTxnOps
	if max == 0 {
		max = 5
	}
	n := rapid.IntRange(1, max).Draw(t, "ntxn")
	var ops structs.TxnOps
	good := chance(t, "aimtosucceed", 65) // every verb chosen so that it passes on the pre-state
	for i := 0; i < n; i++ {
		var op *structs.TxnOp
		if cfg.TxnCatalog && chance(t, "catalogop", 45) {
			op = w.drawTxnCatalogOp(t, cfg)
			if good {
				w.fixTxnCatalogOp(t, op)
			}
		} else {
			op = w.DrawTxnKVOp(t)
			if good {
				w.fixTxnKVOp(t, op.KV)
			}
		}
		ops = append(ops, op)
	}
	return NewTxn(w.NextIdx(t), ops)
}

// DrawTxnRO draws a read-only transaction.
func (w *World) DrawTxnRO(t *rapid.T, cfg *Cfg) *Op {
	n := rapid.IntRange(1, 4).Draw(t, "ntxnro")
	var ops structs.TxnOps
	for i := 0; i < n; i++ {
		verb := pick(t, "roverb", []api.KVOp{api.KVGet, api.KVGetOrEmpty, api.KVGetTree, api.KVCheckSession, api.KVCheckIndex, api.KVCheckNotExists})
		key := pick(t, "key", Keys)
		if verb == api.KVGetTree {
			key = pick(t, "prefix", Prefixes)
			if key == "" {
				key = "a"
			}
		}
		d := structs.DirEntry{Key: key, EnterpriseMeta: defaultEM}
		cur := w.KVEntry(key)
		if verb == api.KVCheckIndex {
			d.ModifyIndex = w.drawCASIndex(t, cur)
		}
		if verb == api.KVCheckSession {
			d.Session = w.drawSessionRef(t)
			if d.Session == "" {
				d.Session = w.SessPool[0]
			}
		}
		ops = append(ops, &structs.TxnOp{KV: &structs.TxnKVOp{Verb: verb, DirEnt: d}})
	}
	return NewTxnRO(w.Idx, ops)
}

// ---- prepared queries

func (w *World) DrawPQ(t *rapid.T) *Op {
	id := pick(t, "pqid", PQIDs)
	if chance(t, "pqdel", 30) {
		return NewPQDelete(w.NextIdx(t), id)
	}
	q := &structs.PreparedQuery{
		ID:      id,
		Name:    pick(t, "pqname", []string{"", "q-" + id[len(id)-1:], "q-" + id[len(id)-1:]}),
		Service: structs.ServiceQuery{Service: pick(t, "pqsvc", ServiceNames)},
	}
	if chance(t, "pqsess", 60) {
		q.Session = w.drawSessionRef(t)
	}
	return NewPQSet(w.NextIdx(t), q)
}

// ---- config entries (normalised and validated as the ConfigEntry endpoint does before raft apply)

func (w *World) DrawConfig(t *rapid.T) *Op {
	var e structs.ConfigEntry
	switch rapid.IntRange(0, 11).Draw(t, "cekind") {
	case 0, 1:
		ig := &structs.IngressGatewayConfigEntry{Kind: structs.IngressGateway, Name: "ingress-gw"}
		nl := rapid.IntRange(1, 2).Draw(t, "nlisteners")
		for i := 0; i < nl; i++ {
			l := structs.IngressListener{Port: 8000 + i, Protocol: "tcp"}
			if chance(t, "http", 40) {
				l.Protocol = "http"
				ns := rapid.IntRange(1, 2).Draw(t, "nsvc")
				if chance(t, "wild", 40) {
					l.Services = []structs.IngressService{{Name: "*"}}
				} else {
					for j := 0; j < ns; j++ {
						nm := pick(t, "igsvc", ServiceNames)
						dupl := false
						for _, s := range l.Services {
							dupl = dupl || s.Name == nm
						}
						if !dupl {
							l.Services = append(l.Services, structs.IngressService{Name: nm})
						}
					}
				}
			} else {
				l.Services = []structs.IngressService{{Name: pick(t, "igsvc", ServiceNames)}}
			}
			ig.Listeners = append(ig.Listeners, l)
		}
		e = ig
	case 2, 3, 4:
		tg := &structs.TerminatingGatewayConfigEntry{Kind: structs.TerminatingGateway, Name: "term-gw"}
		if chance(t, "wild", 35) {
			tg.Services = append(tg.Services, structs.LinkedService{Name: "*"})
		}
		ns := rapid.IntRange(0, 2).Draw(t, "nsvc")
		for j := 0; j < ns; j++ {
			nm := pick(t, "tgsvc", ServiceNames)
			dupl := false
			for _, s := range tg.Services {
				dupl = dupl || s.Name == nm
			}
			if !dupl {
				ls := structs.LinkedService{Name: nm}
				if chance(t, "sni", 20) {
					ls.SNI = nm + ".example"
				}
				tg.Services = append(tg.Services, ls)
			}
		}
		e = tg
	case 5, 6, 7:
		sd := &structs.ServiceConfigEntry{Kind: structs.ServiceDefaults, Name: pick(t, "sdname", ServiceNames), Protocol: pick(t, "proto", []string{"", "tcp", "http", "http"})}
		if chance(t, "dest", 30) {
			sd.Destination = &structs.DestinationConfig{Addresses: []string{pick(t, "destaddr", []string{"1.2.3.4", "example.com"})}, Port: 443}
			sd.Protocol = "tcp"
		}
		e = sd
	case 8:
		e = &structs.ProxyConfigEntry{Kind: structs.ProxyDefaults, Name: structs.ProxyConfigGlobal, Config: map[string]interface{}{"protocol": pick(t, "gproto", []string{"tcp", "http"})}}
	case 9, 10:
		r := &structs.ServiceResolverConfigEntry{Kind: structs.ServiceResolver, Name: pick(t, "rname", ServiceNames)}
		if chance(t, "redirect", 50) {
			to := pick(t, "rto", ServiceNames)
			if to != r.Name {
				r.Redirect = &structs.ServiceResolverRedirect{Service: to}
			}
		} else {
			r.ConnectTimeout = 5 * time.Second
		}
		e = r
	case 11:
		si := &structs.ServiceIntentionsConfigEntry{Kind: structs.ServiceIntentions, Name: pick(t, "siname", []string{"web", "api", "db", "*"})}
		ns := rapid.IntRange(1, 2).Draw(t, "nsrc")
		for j := 0; j < ns; j++ {
			nm := pick(t, "sisrc", []string{"web", "api", "db", "*"})
			dupl := false
			for _, s := range si.Sources {
				dupl = dupl || s.Name == nm
			}
			if !dupl {
				si.Sources = append(si.Sources, &structs.SourceIntention{Name: nm, Action: pick(t, "siact", []structs.IntentionAction{structs.IntentionActionAllow, structs.IntentionActionDeny})})
			}
		}
		e = si
	}
	if chance(t, "cedelete", 30) {
		op := structs.ConfigEntryDelete
		if chance(t, "cedelcas", 25) {
			op = structs.ConfigEntryDeleteCAS
			_, cur, _ := w.Store.ConfigEntry(nil, e.GetKind(), e.GetName(), nil)
			var ci uint64
			if cur != nil {
				ci = cur.GetRaftIndex().ModifyIndex
			}
			e.GetRaftIndex().ModifyIndex = pick(t, "cecas", []uint64{ci, ci, ci + 1, 0})
		}
		return NewConfig(ConfigDelete, w.NextIdx(t), op, e)
	}
	if err := e.Normalize(); err != nil {
		t.Skip("config entry does not normalise: " + err.Error())
	}
	if err := e.Validate(); err != nil {
		// the endpoint refuses it before raft apply: not a command. Draw something else instead.
		return w.DrawKV(t)
	}
	op := structs.ConfigEntryUpsert
	if chance(t, "cecas", 20) {
		op = structs.ConfigEntryUpsertCAS
		_, cur, _ := w.Store.ConfigEntry(nil, e.GetKind(), e.GetName(), nil)
		var ci uint64
		if cur != nil {
			ci = cur.GetRaftIndex().ModifyIndex
		}
		e.GetRaftIndex().ModifyIndex = pick(t, "cecas2", []uint64{ci, ci, ci + 1, 0})
	}
	return NewConfig(ConfigSet, w.NextIdx(t), op, e)
}

// ---- coordinates, system metadata

func (w *World) DrawCoord(t *rapid.T) *Op {
	n := rapid.IntRange(1, 2).Draw(t, "ncoord")
	var cs structs.Coordinates
	for i := 0; i < n; i++ {
		c := coordinate.NewCoordinate(coordinate.DefaultConfig())
		c.Vec[0] = float64(rapid.IntRange(0, 3).Draw(t, "vec0"))
		cs = append(cs, &structs.Coordinate{Node: pick(t, "node", Nodes), Segment: pick(t, "segment", []string{"", "", "alpha"}), Coord: c})
	}
	return NewCoords(w.NextIdx(t), cs)
}

func (w *World) DrawSysMeta(t *rapid.T) *Op {
	k := pick(t, "smkey", []string{structs.SystemMetadataVirtualIPsEnabled, structs.SystemMetadataTermGatewayVirtualIPsEnabled})
	return NewSysMeta(w.NextIdx(t), k, "true")
}

// ---- targeted operations: end a live session through each of the paths the lock property names

// DrawSessionKiller picks a live session and ends it through a drawn path: explicit destroy, node
// deregistration, a bound check turning critical, deletion of a bound check, deregistration of the service a
// bound check belongs to, node rename by ID, or the transactional forms of these.
func (w *World) DrawSessionKiller(t *rapid.T, cfg *Cfg) *Op {
	_, ss, _ := w.Store.SessionList(nil, nil)
	if len(ss) == 0 {
		return w.DrawSession(t, cfg)
	}
	sort.Slice(ss, func(i, j int) bool { return ss[i].ID < ss[j].ID })
	s := pick(t, "victim", ss)
	bound := s.CheckIDs()
	checks := w.NodeChecks(s.Node, "")
	find := func(id types.CheckID) *structs.HealthCheck {
		for _, c := range checks {
			if c.CheckID == id {
				return c
			}
		}
		return nil
	}
	viaTxn := cfg.TxnCatalog && chance(t, "viatxn", 40)
	path := rapid.IntRange(0, 6).Draw(t, "killpath")
	if len(bound) == 0 && path >= 2 && path <= 4 {
		path = rapid.IntRange(0, 1).Draw(t, "killpath2")
	}
	_, node, _ := w.Store.GetNode(s.Node, nil, "")
	switch path {
	case 0: // explicit destroy / txn session delete
		if viaTxn {
			return NewTxn(w.NextIdx(t), structs.TxnOps{&structs.TxnOp{Session: &structs.TxnSessionOp{Verb: api.SessionDelete, Session: structs.Session{ID: s.ID, EnterpriseMeta: defaultEM}}}})
		}
		return NewSessDestroy(w.NextIdx(t), s.ID)
	case 1: // node deregistration
		if viaTxn && node != nil {
			n := structs.Node{Node: node.Node, ID: node.ID, Address: node.Address, Datacenter: "dc1"}
			verb := api.NodeDelete
			if chance(t, "cas", 40) {
				verb = api.NodeDeleteCAS
				n.ModifyIndex = node.ModifyIndex
			}
			return NewTxn(w.NextIdx(t), structs.TxnOps{&structs.TxnOp{Node: &structs.TxnNodeOp{Verb: verb, Node: n}}})
		}
		return NewDereg(DeregNode, w.NextIdx(t), s.Node, "", "")
	case 2: // bound check turns critical
		c := find(pick(t, "boundcheck", bound))
		if c == nil {
			return NewSessDestroy(w.NextIdx(t), s.ID)
		}
		cc := c.Clone()
		cc.Status = api.HealthCritical
		if chance(t, "emptystatus", 30) {
			cc.Status = "" // stored as critical
		}
		cc.RaftIndex = structs.RaftIndex{}
		if viaTxn {
			verb := api.CheckSet
			if chance(t, "cas", 40) {
				verb = api.CheckCAS
				cc.ModifyIndex = c.ModifyIndex
			}
			return NewTxn(w.NextIdx(t), structs.TxnOps{&structs.TxnOp{Check: &structs.TxnCheckOp{Verb: verb, Check: *cc}}})
		}
		req := &structs.RegisterRequest{Datacenter: "dc1", Node: s.Node, Address: "10.0.0." + s.Node[1:], SkipNodeUpdate: true, Checks: structs.HealthChecks{cc}, EnterpriseMeta: defaultEM}
		if node != nil {
			req.ID, req.Address = node.ID, node.Address
		}
		return NewRegister(w.NextIdx(t), req)
	case 3: // bound check deleted
		id := pick(t, "boundcheck", bound)
		if viaTxn {
			hc := structs.HealthCheck{Node: s.Node, CheckID: id, EnterpriseMeta: defaultEM}
			verb := api.CheckDelete
			if c := find(id); c != nil && chance(t, "cas", 40) {
				verb = api.CheckDeleteCAS
				hc.ModifyIndex = c.ModifyIndex
			}
			return NewTxn(w.NextIdx(t), structs.TxnOps{&structs.TxnOp{Check: &structs.TxnCheckOp{Verb: verb, Check: hc}}})
		}
		return NewDereg(DeregCheck, w.NextIdx(t), s.Node, string(id), "")
	case 4: // service of a bound service-level check deregistered
		for _, id := range bound {
			if c := find(id); c != nil && c.ServiceID != "" {
				if viaTxn {
					return NewTxn(w.NextIdx(t), structs.TxnOps{&structs.TxnOp{Service: &structs.TxnServiceOp{Verb: api.ServiceDelete, Node: s.Node, Service: structs.NodeService{ID: c.ServiceID, EnterpriseMeta: defaultEM}}}})
				}
				return NewDereg(DeregService, w.NextIdx(t), s.Node, c.ServiceID, "")
			}
		}
		return NewDereg(DeregCheck, w.NextIdx(t), s.Node, string(pick(t, "boundcheck", bound)), "")
	case 5: // rename by ID: the node's ID re-registered under another name removes the old node
		if node != nil && node.ID != "" {
			var other []string
			for _, n := range Nodes {
				if n != node.Node {
					other = append(other, n)
				}
			}
			nn := pick(t, "newname", other)
			req := &structs.RegisterRequest{Datacenter: "dc1", Node: nn, ID: node.ID, Address: node.Address, EnterpriseMeta: defaultEM}
			return NewRegister(w.NextIdx(t), req)
		}
		return NewDereg(DeregNode, w.NextIdx(t), s.Node, "", "")
	}
	// 6: a multi-op transaction that ends the session and touches one of its keys in the same step
	var held []string
	if _, ents, _ := w.Store.KVSList(nil, "", nil); len(ents) > 0 {
		for _, e := range ents {
			if e.Session == s.ID {
				held = append(held, e.Key)
			}
		}
	}
	ops := structs.TxnOps{&structs.TxnOp{Session: &structs.TxnSessionOp{Verb: api.SessionDelete, Session: structs.Session{ID: s.ID, EnterpriseMeta: defaultEM}}}}
	if cfg.TxnCatalog && chance(t, "nodedel", 50) {
		ops = structs.TxnOps{&structs.TxnOp{Node: &structs.TxnNodeOp{Verb: api.NodeDelete, Node: structs.Node{Node: s.Node}}}}
	}
	if len(held) > 0 {
		k := pick(t, "heldkey", held)
		ops = append(ops, &structs.TxnOp{KV: &structs.TxnKVOp{Verb: api.KVGet, DirEnt: structs.DirEntry{Key: k, EnterpriseMeta: defaultEM}}})
	}
	return NewTxn(w.NextIdx(t), ops)
}


// fixTxnKVOp rewrites a drawn KV verb so that it succeeds on the current (pre-transaction) state.
func (w *World) fixTxnKVOp(t *rapid.T, op *structs.TxnKVOp) {
	d := &op.DirEnt
	cur := w.KVEntry(d.Key)
	live := w.LiveSessions()
	switch op.Verb {
	case api.KVCAS:
		d.ModifyIndex = 0
		if cur != nil {
			d.ModifyIndex = cur.ModifyIndex
		}
	case api.KVDeleteCAS:
		if cur != nil {
			d.ModifyIndex = cur.ModifyIndex
		}
	case api.KVLock:
		switch {
		case cur != nil && cur.Session != "":
			d.Session = cur.Session
		case len(live) > 0:
			d.Session = pick(t, "fixlive", live)
		default:
			op.Verb, d.Session = api.KVSet, ""
		}
	case api.KVUnlock:
		if cur != nil && cur.Session != "" {
			d.Session = cur.Session
		} else {
			op.Verb, d.Session = api.KVSet, ""
		}
	case api.KVGet:
		if cur == nil {
			op.Verb = api.KVGetOrEmpty
		}
	case api.KVCheckSession:
		if cur != nil && cur.Session != "" {
			d.Session = cur.Session
		} else {
			op.Verb, d.Session = api.KVGetOrEmpty, ""
		}
	case api.KVCheckIndex:
		if cur != nil {
			d.ModifyIndex = cur.ModifyIndex
		} else {
			op.Verb, d.ModifyIndex = api.KVCheckNotExists, 0
		}
	case api.KVCheckNotExists:
		if cur != nil {
			op.Verb = api.KVGet
		}
	}
}

// fixTxnCatalogOp rewrites a drawn catalog verb so that it succeeds on the current state where that is cheap to arrange.
func (w *World) fixTxnCatalogOp(t *rapid.T, op *structs.TxnOp) {
	nodes := w.LiveNodes("")
	switch {
	case op.Node != nil:
		_, cur, _ := w.Store.GetNode(op.Node.Node.Node, nil, "")
		switch op.Node.Verb {
		case api.NodeGet:
			if cur == nil {
				op.Node.Verb = api.NodeSet
			}
		case api.NodeCAS, api.NodeDeleteCAS:
			op.Node.Node.ModifyIndex = 0
			if cur != nil {
				op.Node.Node.ModifyIndex = cur.ModifyIndex
			} else if op.Node.Verb == api.NodeDeleteCAS {
				op.Node.Verb = api.NodeDelete
			}
		}
	case op.Service != nil:
		if len(nodes) == 0 {
			return
		}
		if _, cur, _ := w.Store.GetNode(op.Service.Node, nil, ""); cur == nil {
			op.Service.Node = nodes[0].Node
		}
		var curIdx uint64
		found := false
		for _, e := range w.NodeServices(op.Service.Node, "") {
			if e.ID == op.Service.Service.ID {
				curIdx, found = e.ModifyIndex, true
			}
		}
		switch op.Service.Verb {
		case api.ServiceGet:
			if !found {
				op.Service.Verb = api.ServiceSet
			}
		case api.ServiceCAS:
			op.Service.Service.ModifyIndex = curIdx
		case api.ServiceDeleteCAS:
			if found {
				op.Service.Service.ModifyIndex = curIdx
			} else {
				op.Service.Verb = api.ServiceDelete
			}
		}
		if (op.Service.Verb == api.ServiceSet || op.Service.Verb == api.ServiceCAS) && op.Service.Service.Service == "" {
			op.Service.Service.Service = "web"
		}
	case op.Check != nil:
		if len(nodes) == 0 {
			return
		}
		if _, cur, _ := w.Store.GetNode(op.Check.Check.Node, nil, ""); cur == nil {
			op.Check.Check.Node = nodes[0].Node
		}
		var curIdx uint64
		found := false
		for _, e := range w.NodeChecks(op.Check.Check.Node, "") {
			if e.CheckID == op.Check.Check.CheckID {
				curIdx, found = e.ModifyIndex, true
			}
		}
		if op.Check.Check.ServiceID != "" {
			ok := false
			for _, e := range w.NodeServices(op.Check.Check.Node, "") {
				ok = ok || e.ID == op.Check.Check.ServiceID
			}
			if !ok {
				op.Check.Check.ServiceID, op.Check.Check.ServiceName = "", ""
			}
		}
		switch op.Check.Verb {
		case api.CheckGet:
			if !found {
				op.Check.Verb = api.CheckSet
			}
		case api.CheckCAS:
			op.Check.Check.ModifyIndex = curIdx
		case api.CheckDeleteCAS:
			if found {
				op.Check.Check.ModifyIndex = curIdx
			} else {
				op.Check.Verb = api.CheckDelete
			}
		}
	}
}


// DrawTxnPlan draws a transaction whose verbs all pass on the pre-state and, in ~60 % of the cases, places one
// failing verb at a drawn position (stale CAS, failed guard, missing node/service, lock held or unknown session,
// read of a missing entry, unknown session delete).
func (w *World) DrawTxnPlan(t *rapid.T, cfg *Cfg) *Op {
	max := cfg.MaxTxnOps
	if max == 0 {
		max = 6
	}
	n := rapid.IntRange(1, max).Draw(t, "ntxn")
	var ops structs.TxnOps
	for i := 0; i < n; i++ {
		var op *structs.TxnOp
		if cfg.TxnCatalog && chance(t, "catalogop", 45) {
			op = w.drawTxnCatalogOp(t, cfg)
			w.fixTxnCatalogOp(t, op)
		} else {
			op = w.DrawTxnKVOp(t)
			w.fixTxnKVOp(t, op.KV)
		}
		ops = append(ops, op)
	}
	if chance(t, "repeatop", 15) { // the same verb twice: the second one must see the effect of the first
		src := ops[rapid.IntRange(0, len(ops)-1).Draw(t, "repeatsrc")]
		cp := *src
		pos := rapid.IntRange(0, len(ops)).Draw(t, "repeatpos")
		ops = append(ops[:pos], append(structs.TxnOps{&cp}, ops[pos:]...)...)
	}
	if chance(t, "withfailure", 60) {
		pos := rapid.IntRange(0, len(ops)).Draw(t, "failpos")
		bad := w.drawFailingTxnOp(t, cfg)
		ops = append(ops[:pos], append(structs.TxnOps{bad}, ops[pos:]...)...)
	}
	return NewTxn(w.NextIdx(t), ops)
}

func (w *World) drawFailingTxnOp(t *rapid.T, cfg *Cfg) *structs.TxnOp {
	key := pick(t, "key", Keys)
	cur := w.KVEntry(key)
	kv := func(verb api.KVOp, d structs.DirEntry) *structs.TxnOp {
		d.Key, d.EnterpriseMeta = key, defaultEM
		return &structs.TxnOp{KV: &structs.TxnKVOp{Verb: verb, DirEnt: d}}
	}
	kmax := 7
	if cfg.TxnCatalog {
		kmax = 12
	}
	switch rapid.IntRange(0, kmax).Draw(t, "failkind") {
	case 0: // stale / impossible CAS
		if cur != nil {
			return kv(api.KVCAS, structs.DirEntry{Value: []byte("x"), RaftIndex: structs.RaftIndex{ModifyIndex: cur.ModifyIndex + 7}})
		}
		return kv(api.KVCAS, structs.DirEntry{Value: []byte("x"), RaftIndex: structs.RaftIndex{ModifyIndex: 5}})
	case 1: // failed check-index guard
		var mi uint64 = 5
		if cur != nil {
			mi = cur.ModifyIndex + 3
		}
		return kv(api.KVCheckIndex, structs.DirEntry{RaftIndex: structs.RaftIndex{ModifyIndex: mi}})
	case 2: // failed check-session guard
		return kv(api.KVCheckSession, structs.DirEntry{Session: "5e55ffff-ffff-4fff-8fff-ffffffffffff"})
	case 3: // check-not-exists on an existing key / get on a missing one
		if cur != nil {
			return kv(api.KVCheckNotExists, structs.DirEntry{})
		}
		return kv(api.KVGet, structs.DirEntry{})
	case 4: // lock with unknown session
		return kv(api.KVLock, structs.DirEntry{Value: []byte("x"), Session: "5e55ffff-ffff-4fff-8fff-ffffffffffff"})
	case 5: // lock held by another session / unlock by non-holder
		if cur != nil && cur.Session != "" {
			for _, id := range w.LiveSessions() {
				if id != cur.Session {
					return kv(api.KVLock, structs.DirEntry{Value: []byte("x"), Session: id})
				}
			}
		}
		return kv(api.KVUnlock, structs.DirEntry{Session: "5e55ffff-ffff-4fff-8fff-ffffffffffff"})
	case 6: // stale delete-cas
		if cur != nil {
			return kv(api.KVDeleteCAS, structs.DirEntry{RaftIndex: structs.RaftIndex{ModifyIndex: cur.ModifyIndex + 9}})
		}
		return kv(api.KVGet, structs.DirEntry{})
	case 7:
		return kv(api.KVGet, structs.DirEntry{Key: "zz/missing"}) // key is overwritten by kv(); keep as plain get of drawn key when absent
	case 8: // service on a missing node
		return &structs.TxnOp{Service: &structs.TxnServiceOp{Verb: api.ServiceSet, Node: "n-missing", Service: structs.NodeService{ID: "web-1", Service: "web", Port: 80, EnterpriseMeta: defaultEM}}}
	case 9: // check on a missing node / missing service
		return &structs.TxnOp{Check: &structs.TxnCheckOp{Verb: api.CheckSet, Check: structs.HealthCheck{Node: "n-missing", CheckID: "c1", Name: "c1", Status: api.HealthPassing, EnterpriseMeta: defaultEM}}}
	case 10: // stale node CAS
		node := pick(t, "node", Nodes)
		_, curN, _ := w.Store.GetNode(node, nil, "")
		var mi uint64 = 3
		if curN != nil {
			mi = curN.ModifyIndex + 5
		}
		return &structs.TxnOp{Node: &structs.TxnNodeOp{Verb: api.NodeCAS, Node: structs.Node{Node: node, ID: NodeIDs[node], Address: "10.0.0.9", RaftIndex: structs.RaftIndex{ModifyIndex: mi}}}}
	case 11: // get of a missing service / check
		return &structs.TxnOp{Service: &structs.TxnServiceOp{Verb: api.ServiceGet, Node: pick(t, "node", Nodes), Service: structs.NodeService{ID: "nope-1", EnterpriseMeta: defaultEM}}}
	default: // delete of an unknown session
		return &structs.TxnOp{Session: &structs.TxnSessionOp{Verb: api.SessionDelete, Session: structs.Session{ID: "5e55ffff-ffff-4fff-8fff-ffffffffffff", EnterpriseMeta: defaultEM}}}
	}
}
