//go:build verif

package verifstate

// Generator shapes for C07 (catalog integrity). They complement World.DrawOp with histories aimed at the
// derived catalog views: several proxy instances of one destination on different nodes sharing upstreams,
// in-place upstream edits, removal of the last instance of a service that still has a proxy or gateway link,
// wildcard gateway entries written before/after the services they cover, node renames while services and
// sessions exist, and peer-imported registrations shaped as the peering stream produces them.

import (
	"sort"

	"github.com/hashicorp/consul/agent/structs"
	"pgregory.net/rapid"
)

// C07Cfg is the weight set of the C07 machine on top of a vs.Cfg for the shared families.
type C07Cfg struct {
	Shared   *Cfg
	SharedW  int // weight of "draw from the shared families"
	ProxyW   int // proxy instance for a destination (clone onto another node / edit upstreams in place)
	LastW    int // deregister an instance of a service that has a proxy or a gateway link
	GatewayW int // ingress / terminating gateway entries with wildcards, and their deletion
	RenameW  int // node rename by ID, aimed at nodes with services / sessions
	PeerW    int // peer-imported registration / deregistration
	DestW    int // service-defaults with / without destination, and deletion
	MultiGwW int // one service linked by an ingress AND a terminating gateway whose instance advertises its virtual IP
	MorphW   int // an existing instance (same node, same service ID) registered again with another kind / connect-native flag / name
}

// C07SanitizePeerRegistration rewrites a peer-scoped registration into the shape the peering stream produces
// (subscription_manager.go): imported typical services carry no Connect/Proxy block, imported sidecar proxies
// are synthetic connect-proxy services with a destination and NO upstreams, gateways are not imported as such.
// Local registrations are returned unchanged.
func C07SanitizePeerRegistration(op *Op) *Op {
	if op.Kind != Register || op.P.Reg.PeerName == "" || op.P.Reg.Service == nil {
		return op
	}
	req := op.Fresh().Reg
	s := req.Service
	s.Connect = structs.ServiceConnect{}
	switch s.Kind {
	case structs.ServiceKindConnectProxy:
		s.Proxy = structs.ConnectProxyConfig{DestinationServiceName: s.Proxy.DestinationServiceName, DestinationServiceID: s.Proxy.DestinationServiceID}
	case structs.ServiceKindTypical:
	default:
		// gateways: import them as plain typical services of the same name (mesh gateways are exported as typical
		// CheckServiceNodes with Connect/Proxy stripped)
		s.Kind = structs.ServiceKindTypical
	}
	return NewRegister(op.Idx, req)
}

type c07Inst struct {
	node string
	svc  *structs.NodeService
}

func (w *World) c07LocalInstances() []c07Inst {
	var out []c07Inst
	for _, n := range w.LiveNodes("") {
		for _, s := range w.NodeServices(n.Node, "") {
			out = append(out, c07Inst{n.Node, s})
		}
	}
	sort.Slice(out, func(i, j int) bool {
		if out[i].node != out[j].node {
			return out[i].node < out[j].node
		}
		return out[i].svc.ID < out[j].svc.ID
	})
	return out
}

func c07BaseReq(node, peer string) *structs.RegisterRequest {
	return &structs.RegisterRequest{
		Datacenter:     "dc1",
		Node:           node,
		ID:             NodeIDs[node],
		Address:        "10.0.0." + node[1:],
		PeerName:       peer,
		EnterpriseMeta: defaultEM,
	}
}

func c07Proxy(dst, inst string, ups []string) *structs.NodeService {
	svc := &structs.NodeService{
		Kind:           structs.ServiceKindConnectProxy,
		Service:        dst + "-proxy",
		ID:             dst + "-proxy-" + inst,
		Port:           20000 + len(dst),
		Weights:        &structs.Weights{Passing: 1, Warning: 1},
		Proxy:          structs.ConnectProxyConfig{DestinationServiceName: dst},
		EnterpriseMeta: defaultEM,
	}
	for i, u := range ups {
		svc.Proxy.Upstreams = append(svc.Proxy.Upstreams, structs.Upstream{DestinationType: structs.UpstreamDestTypeService, DestinationName: u, LocalBindPort: 9000 + i})
	}
	return svc
}

// C07DrawOp draws one op of the C07 machine.
func (w *World) C07DrawOp(t *rapid.T, cfg *C07Cfg) *Op {
	type fam struct {
		w int
		f func() *Op
	}
	fams := []fam{
		{cfg.SharedW, func() *Op { return C07SanitizePeerRegistration(w.DrawOp(t, cfg.Shared)) }},
		{cfg.ProxyW, func() *Op { return w.c07DrawProxy(t) }},
		{cfg.LastW, func() *Op { return w.c07DrawLinkedDereg(t) }},
		{cfg.GatewayW, func() *Op { return w.c07DrawGatewayEntry(t) }},
		{cfg.RenameW, func() *Op { return w.c07DrawRename(t) }},
		{cfg.PeerW, func() *Op { return w.c07DrawPeer(t) }},
		{cfg.DestW, func() *Op { return w.c07DrawDefaults(t) }},
		{cfg.MultiGwW, func() *Op { return w.c07DrawMultiGateway(t) }},
		{cfg.MorphW, func() *Op { return w.c07DrawMorph(t) }},
	}
	total := 0
	for _, f := range fams {
		total += f.w
	}
	x := rapid.IntRange(0, total-1).Draw(t, "c07family")
	for _, f := range fams {
		if x < f.w {
			return f.f()
		}
		x -= f.w
	}
	panic("unreachable")
}

// c07DrawProxy registers a sidecar proxy instance: a fresh one for a drawn destination, a copy of an existing
// proxy on another node (same destination, same upstreams), or an in-place edit of an existing proxy's upstreams.
func (w *World) c07DrawProxy(t *rapid.T) *Op {
	var proxies []c07Inst
	for _, in := range w.c07LocalInstances() {
		if in.svc.Kind == structs.ServiceKindConnectProxy {
			proxies = append(proxies, in)
		}
	}
	drawUps := func() []string {
		n := rapid.IntRange(0, 2).Draw(t, "nups")
		var ups []string
		for i := 0; i < n; i++ {
			u := pick(t, "up", ServiceNames)
			dup := false
			for _, x := range ups {
				dup = dup || x == u
			}
			if !dup {
				ups = append(ups, u)
			}
		}
		return ups
	}
	node := pick(t, "node", Nodes)
	mode := rapid.IntRange(0, 9).Draw(t, "proxymode")
	if len(proxies) == 0 || mode < 3 {
		req := c07BaseReq(node, "")
		req.Service = c07Proxy(pick(t, "dst", ServiceNames), pick(t, "inst", []string{"1", "1", "2"}), drawUps())
		return NewRegister(w.NextIdx(t), req)
	}
	src := pick(t, "srcproxy", proxies)
	dst := src.svc.Proxy.DestinationServiceName
	var ups []string
	for _, u := range src.svc.Proxy.Upstreams {
		if u.DestinationPeer == "" {
			ups = append(ups, u.DestinationName)
		}
	}
	if mode < 7 { // another instance of the same destination with the same upstreams, elsewhere
		var other []string
		for _, n := range Nodes {
			if n != src.node {
				other = append(other, n)
			}
		}
		node = pick(t, "othernode", other)
		inst := pick(t, "inst", []string{"1", "1", "2"})
		if chance(t, "samenode", 20) {
			node = src.node
			inst = "2"
			if src.svc.ID == dst+"-proxy-2" {
				inst = "1"
			}
		}
		req := c07BaseReq(node, "")
		req.Service = c07Proxy(dst, inst, ups)
		return NewRegister(w.NextIdx(t), req)
	}
	// in-place edit of the upstream list (drop one, add one, or redraw)
	switch rapid.IntRange(0, 2).Draw(t, "editups") {
	case 0:
		if len(ups) > 0 {
			i := rapid.IntRange(0, len(ups)-1).Draw(t, "dropup")
			ups = append(append([]string{}, ups[:i]...), ups[i+1:]...)
		}
	case 1:
		u := pick(t, "addup", ServiceNames)
		dup := false
		for _, x := range ups {
			dup = dup || x == u
		}
		if !dup {
			ups = append(ups, u)
		}
	default:
		ups = drawUps()
	}
	req := c07BaseReq(src.node, "")
	inst := "1"
	if src.svc.ID == dst+"-proxy-2" {
		inst = "2"
	}
	req.Service = c07Proxy(dst, inst, ups)
	req.Service.Port = src.svc.Port
	return NewRegister(w.NextIdx(t), req)
}

// c07DrawLinkedDereg deregisters (service or whole node) an instance of a service name that is still the
// destination of a proxy or is linked to a gateway — preferably its last instance — or a proxy whose
// destination has other proxy instances.
func (w *World) c07DrawLinkedDereg(t *rapid.T) *Op {
	insts := w.c07LocalInstances()
	if len(insts) == 0 {
		return w.DrawDereg(t, &Cfg{})
	}
	count := map[string]int{}
	dest := map[string]int{}
	for _, in := range insts {
		count[in.svc.Service]++
		if in.svc.Kind == structs.ServiceKindConnectProxy {
			dest[in.svc.Proxy.DestinationServiceName]++
		}
	}
	linked := map[string]bool{}
	if _, gs, err := w.Store.DumpGatewayServices(nil); err == nil {
		for _, g := range gs {
			linked[g.Service.Name] = true
		}
	}
	var best, good []c07Inst
	for _, in := range insts {
		name := in.svc.Service
		switch {
		case in.svc.Kind == structs.ServiceKindConnectProxy && dest[in.svc.Proxy.DestinationServiceName] > 1:
			good = append(good, in)
		case dest[name] > 0 || linked[name]:
			if count[name] == 1 {
				best = append(best, in)
			} else {
				good = append(good, in)
			}
		}
	}
	var victim c07Inst
	switch {
	case len(best) > 0 && (len(good) == 0 || chance(t, "last", 70)):
		victim = pick(t, "victim", best)
	case len(good) > 0:
		victim = pick(t, "victim", good)
	default:
		victim = pick(t, "victim", insts)
	}
	if chance(t, "wholenode", 15) {
		return NewDereg(DeregNode, w.NextIdx(t), victim.node, "", "")
	}
	return NewDereg(DeregService, w.NextIdx(t), victim.node, victim.svc.ID, "")
}

// c07HTTPServices lists the services whose service-defaults entry says protocol http.
func (w *World) c07HTTPServices() []string {
	var out []string
	for _, n := range ServiceNames {
		if _, e, _ := w.Store.ConfigEntry(nil, structs.ServiceDefaults, n, nil); e != nil {
			if sd, ok := e.(*structs.ServiceConfigEntry); ok && sd.Protocol == "http" {
				out = append(out, n)
			}
		}
	}
	return out
}

// c07CloneEntry copies a stored config entry through its wire encoding (stored objects must never be modified).
func c07CloneEntry(e structs.ConfigEntry) structs.ConfigEntry {
	b, err := (&structs.ConfigEntryRequest{Op: structs.ConfigEntryUpsert, Entry: e}).MarshalBinary()
	if err != nil {
		panic(err)
	}
	var req structs.ConfigEntryRequest
	if err := req.UnmarshalBinary(b); err != nil {
		panic(err)
	}
	req.Entry.GetRaftIndex().CreateIndex, req.Entry.GetRaftIndex().ModifyIndex = 0, 0
	return req.Entry
}

// c07DrawGatewayEntry writes or deletes an ingress / terminating gateway entry, favouring wildcards.
func (w *World) c07DrawGatewayEntry(t *rapid.T) *Op {
	var e structs.ConfigEntry
	// aimed: rewrite the stored entry with the same services on the same ports and only a per-link SETTING changed
	// (hosts of an ingress service, SNI / CA file of a linked service): the rows must follow
	if hs := w.c07HTTPServices(); len(hs) == 0 && chance(t, "httpdefaults", 12) {
		sd := &structs.ServiceConfigEntry{Kind: structs.ServiceDefaults, Name: pick(t, "httpdefaultsname", ServiceNames), Protocol: "http"}
		if sd.Normalize() == nil && sd.Validate() == nil {
			return NewConfig(ConfigSet, w.NextIdx(t), structs.ConfigEntryUpsert, sd)
		}
	}
	if chance(t, "tune", 22) {
		if _, cur, _ := w.Store.ConfigEntry(nil, structs.IngressGateway, "ingress-gw", nil); cur != nil && chance(t, "tuneingress", 50) {
			ig := c07CloneEntry(cur).(*structs.IngressGatewayConfigEntry)
			for li := range ig.Listeners {
				l := &ig.Listeners[li]
				if l.Protocol != "http" || len(l.Services) == 0 || l.Services[0].Name == structs.WildcardSpecifier {
					continue
				}
				choices := [][]string{nil, {"web.example.com"}, {"www.example.com", "alt.example.com"}}
				l.Services[0].Hosts = pick(t, "tunehosts", choices)
				if ig.Validate() == nil {
					return NewConfig(ConfigSet, w.NextIdx(t), structs.ConfigEntryUpsert, ig)
				}
			}
		}
		if _, cur, _ := w.Store.ConfigEntry(nil, structs.TerminatingGateway, "term-gw", nil); cur != nil {
			tg := c07CloneEntry(cur).(*structs.TerminatingGatewayConfigEntry)
			for si := range tg.Services {
				sv := &tg.Services[si]
				if sv.Name == structs.WildcardSpecifier {
					continue
				}
				if chance(t, "tunesni", 50) {
					sv.SNI = pick(t, "tunesnival", []string{"", sv.Name + ".example", sv.Name + ".internal"})
				} else {
					sv.CAFile = pick(t, "tunecafile", []string{"", "/etc/ca-1.pem", "/etc/ca-2.pem"})
				}
				if tg.Validate() == nil {
					return NewConfig(ConfigSet, w.NextIdx(t), structs.ConfigEntryUpsert, tg)
				}
			}
		}
	}
	if chance(t, "ingress", 50) {
		ig := &structs.IngressGatewayConfigEntry{Kind: structs.IngressGateway, Name: "ingress-gw"}
		l := structs.IngressListener{Port: 8000, Protocol: "http"}
		if chance(t, "wild", 70) {
			l.Services = []structs.IngressService{{Name: "*"}}
		} else {
			l.Services = []structs.IngressService{{Name: pick(t, "igsvc", ServiceNames)}}
			// an http listener only accepts services whose protocol is http: prefer those (else the store refuses the entry)
			if hs := w.c07HTTPServices(); len(hs) > 0 && chance(t, "ighttpsvc", 85) {
				l.Services[0].Name = pick(t, "igsvchttp", hs)
			}
			// per-service attributes that are copied into the gateway-services rows
			switch pick(t, "ighosts", []string{"", "", "a", "b"}) {
			case "a":
				l.Services[0].Hosts = []string{"web.example.com"}
			case "b":
				l.Services[0].Hosts = []string{"www.example.com", "alt.example.com"}
			}
		}
		ig.Listeners = append(ig.Listeners, l)
		if chance(t, "second", 40) {
			l2 := structs.IngressListener{Port: 8001, Protocol: pick(t, "proto2", []string{"tcp", "http"})}
			l2.Services = []structs.IngressService{{Name: pick(t, "igsvc2", ServiceNames)}}
			ig.Listeners = append(ig.Listeners, l2)
		}
		e = ig
	} else {
		tg := &structs.TerminatingGatewayConfigEntry{Kind: structs.TerminatingGateway, Name: "term-gw"}
		if chance(t, "wild", 70) {
			tg.Services = append(tg.Services, structs.LinkedService{Name: "*"})
		}
		if chance(t, "explicit", 50) {
			ls := structs.LinkedService{Name: pick(t, "tgsvc", ServiceNames)}
			if chance(t, "sni", 50) {
				ls.SNI = ls.Name + pick(t, "snisuffix", []string{".example", ".example", ".internal"})
			}
			if chance(t, "cafile", 30) {
				ls.CAFile = pick(t, "cafilename", []string{"/etc/ca-1.pem", "/etc/ca-2.pem"})
			}
			tg.Services = append(tg.Services, ls)
		}
		if len(tg.Services) == 0 {
			tg.Services = append(tg.Services, structs.LinkedService{Name: pick(t, "tgsvc2", ServiceNames)})
		}
		e = tg
	}
	if chance(t, "delete", 25) {
		return NewConfig(ConfigDelete, w.NextIdx(t), structs.ConfigEntryDelete, e)
	}
	if err := e.Normalize(); err != nil {
		t.Skip("config entry does not normalise: " + err.Error())
	}
	if err := e.Validate(); err != nil {
		return w.DrawCoord(t) // refused by the endpoint before raft apply: not a command
	}
	return NewConfig(ConfigSet, w.NextIdx(t), structs.ConfigEntryUpsert, e)
}

// c07DrawRename re-registers the ID of a live local node (preferably one with services or sessions) under
// another name.
func (w *World) c07DrawRename(t *rapid.T) *Op {
	var withID, busy []*structs.Node
	sessNodes := map[string]bool{}
	if _, ss, err := w.Store.SessionList(nil, nil); err == nil {
		for _, s := range ss {
			sessNodes[s.Node] = true
		}
	}
	for _, n := range w.LiveNodes("") {
		if n.ID == "" {
			continue
		}
		withID = append(withID, n)
		if len(w.NodeServices(n.Node, "")) > 0 || sessNodes[n.Node] {
			busy = append(busy, n)
		}
	}
	if len(withID) == 0 {
		req := c07BaseReq(pick(t, "node", Nodes), "")
		return NewRegister(w.NextIdx(t), req)
	}
	src := pick(t, "renamesrc", withID)
	if len(busy) > 0 && chance(t, "busy", 80) {
		src = pick(t, "renamebusy", busy)
	}
	var other []string
	for _, n := range Nodes {
		if n != src.Node {
			other = append(other, n)
		}
	}
	req := c07BaseReq(pick(t, "newname", other), "")
	req.ID = src.ID
	req.Address = src.Address
	if chance(t, "withsvc", 30) {
		req.Service = w.drawService(t, &Cfg{Connect: true})
	}
	return NewRegister(w.NextIdx(t), req)
}

// c07DrawPeer registers or deregisters peer-imported entries as the peering stream does: typical services
// without Connect block, synthetic sidecar proxies (destination, no upstreams), with a health check.
func (w *World) c07DrawPeer(t *rapid.T) *Op {
	peer := "peerA"
	node := pick(t, "node", Nodes)
	if chance(t, "dereg", 30) {
		if ns := w.LiveNodes(peer); len(ns) > 0 {
			node = pick(t, "livenode", ns).Node
		}
		if ss := w.NodeServices(node, peer); len(ss) > 0 && chance(t, "svc", 75) {
			return NewDereg(DeregService, w.NextIdx(t), node, pick(t, "svc2", ss).ID, peer)
		}
		return NewDereg(DeregNode, w.NextIdx(t), node, "", peer)
	}
	req := c07BaseReq(node, peer)
	name := pick(t, "svcname", ServiceNames)
	inst := pick(t, "inst", []string{"1", "1", "2"})
	if chance(t, "proxy", 50) {
		req.Service = c07Proxy(name, inst, nil)
		if chance(t, "destid", 50) {
			req.Service.Proxy.DestinationServiceID = name + "-" + inst
		}
	} else {
		req.Service = &structs.NodeService{Service: name, ID: name + "-" + inst, Port: 8080, Weights: &structs.Weights{Passing: 1, Warning: 1}, EnterpriseMeta: defaultEM}
	}
	req.Service.PeerName = peer
	if chance(t, "check", 50) {
		req.Checks = append(req.Checks, &structs.HealthCheck{Node: node, CheckID: "c1", Name: "c1", Status: "passing", ServiceID: req.Service.ID, ServiceName: req.Service.Service, PeerName: peer, EnterpriseMeta: defaultEM})
	}
	return NewRegister(w.NextIdx(t), req)
}

// c07DrawDefaults writes a service-defaults entry with or without destination, or deletes it.
func (w *World) c07DrawDefaults(t *rapid.T) *Op {
	sd := &structs.ServiceConfigEntry{Kind: structs.ServiceDefaults, Name: pick(t, "sdname", ServiceNames), Protocol: "tcp"}
	if chance(t, "delete", 35) {
		return NewConfig(ConfigDelete, w.NextIdx(t), structs.ConfigEntryDelete, sd)
	}
	if chance(t, "dest", 65) {
		sd.Destination = &structs.DestinationConfig{Addresses: []string{pick(t, "destaddr", []string{"1.2.3.4", "example.com"})}, Port: 443}
	}
	if err := sd.Normalize(); err != nil {
		t.Skip("config entry does not normalise: " + err.Error())
	}
	if err := sd.Validate(); err != nil {
		return w.DrawCoord(t)
	}
	return NewConfig(ConfigSet, w.NextIdx(t), structs.ConfigEntryUpsert, sd)
}

// c07DrawMultiGateway builds, one op per call, the situation "service S is linked by the ingress gateway AND by
// the terminating gateway, a terminating-gateway instance registered after the entry advertises
// consul-virtual:S, S has a catalog instance (and possibly a proxy / a service-defaults entry)", and once it is
// reached removes what else holds S's virtual IP: the last instance(s) of S, S's service-defaults entry, or
// re-registers the gateway instance. Each call looks at the store and supplies the first missing piece.
func (w *World) c07DrawMultiGateway(t *rapid.T) *Op {
	s := w.Store
	flag := func(k string) bool {
		_, e, _ := s.SystemMetadataGet(nil, k)
		return e != nil && e.Value != ""
	}
	if !flag(structs.SystemMetadataVirtualIPsEnabled) {
		return NewSysMeta(w.NextIdx(t), structs.SystemMetadataVirtualIPsEnabled, "true")
	}
	if !flag(structs.SystemMetadataTermGatewayVirtualIPsEnabled) {
		return NewSysMeta(w.NextIdx(t), structs.SystemMetadataTermGatewayVirtualIPsEnabled, "true")
	}
	// what is there
	var tg *structs.TerminatingGatewayConfigEntry
	var ig *structs.IngressGatewayConfigEntry
	if _, e, _ := s.ConfigEntry(nil, structs.TerminatingGateway, "term-gw", nil); e != nil {
		tg = e.(*structs.TerminatingGatewayConfigEntry)
	}
	if _, e, _ := s.ConfigEntry(nil, structs.IngressGateway, "ingress-gw", nil); e != nil {
		ig = e.(*structs.IngressGatewayConfigEntry)
	}
	tgLists := map[string]bool{}
	if tg != nil {
		for _, l := range tg.Services {
			tgLists[l.Name] = true
		}
	}
	igLists := map[string]bool{}
	if ig != nil {
		for _, l := range ig.Listeners {
			for _, sv := range l.Services {
				igLists[sv.Name] = true
			}
		}
	}
	insts := w.c07LocalInstances()
	count := map[string]int{}
	var gws []c07Inst
	for _, in := range insts {
		count[in.svc.Service]++
		if in.svc.Kind == structs.ServiceKindTerminatingGateway && in.svc.Service == "term-gw" {
			gws = append(gws, in)
		}
	}
	// the service the scenario is about: the one the terminating gateway already lists, else a drawn one
	var listed []string
	for _, n := range ServiceNames {
		if tgLists[n] {
			listed = append(listed, n)
		}
	}
	svc := pick(t, "mgsvc", ServiceNames)
	if len(listed) > 0 {
		svc = pick(t, "mglisted", listed)
	}
	switch {
	case !tgLists[svc]: // terminating gateway entry naming the service exactly (the tag is only made for exact names)
		e := &structs.TerminatingGatewayConfigEntry{Kind: structs.TerminatingGateway, Name: "term-gw", Services: []structs.LinkedService{{Name: svc}}}
		if chance(t, "tgwild", 25) {
			e.Services = append([]structs.LinkedService{{Name: "*"}}, e.Services...)
		}
		if chance(t, "tgsecond", 25) {
			for _, n := range ServiceNames {
				if n != svc {
					e.Services = append(e.Services, structs.LinkedService{Name: n})
					break
				}
			}
		}
		return w.c07ConfigSet(t, e)
	case !igLists[svc] && !igLists["*"]: // ingress gateway entry linking the same service, by name or by wildcard
		l := structs.IngressListener{Port: 8000, Protocol: "tcp", Services: []structs.IngressService{{Name: svc}}}
		if chance(t, "igwild", 30) {
			l = structs.IngressListener{Port: 8000, Protocol: "http", Services: []structs.IngressService{{Name: "*"}}}
		}
		return w.c07ConfigSet(t, &structs.IngressGatewayConfigEntry{Kind: structs.IngressGateway, Name: "ingress-gw", Listeners: []structs.IngressListener{l}})
	case len(gws) == 0: // the gateway instance, registered AFTER its entry so that the tags are populated
		req := c07BaseReq(pick(t, "gwnode", Nodes), "")
		req.Service = &structs.NodeService{Kind: structs.ServiceKindTerminatingGateway, Service: "term-gw", ID: "term-gw-" + pick(t, "gwinst", []string{"1", "1", "2"}),
			Port: 8444, Weights: &structs.Weights{Passing: 1, Warning: 1}, EnterpriseMeta: defaultEM}
		return NewRegister(w.NextIdx(t), req)
	case count[svc] == 0 && chance(t, "mgreg", 75): // an instance (sometimes connect-native, sometimes with its sidecar first)
		req := c07BaseReq(pick(t, "svcnode", Nodes), "")
		switch rapid.IntRange(0, 5).Draw(t, "mgshape") {
		case 0:
			req.Service = c07Proxy(svc, "1", nil)
		default:
			req.Service = &structs.NodeService{Service: svc, ID: svc + "-" + pick(t, "inst", []string{"1", "1", "2"}), Port: 8080, Weights: &structs.Weights{Passing: 1, Warning: 1}, EnterpriseMeta: defaultEM}
			if chance(t, "mgnative", 20) {
				req.Service.Connect.Native = true
			}
		}
		return NewRegister(w.NextIdx(t), req)
	}
	// everything is in place (or the service has no instance left): take away what else holds the virtual IP
	_, sd, _ := s.ConfigEntry(nil, structs.ServiceDefaults, svc, nil)
	var victims []c07Inst
	for _, in := range insts {
		if in.svc.Service == svc {
			victims = append(victims, in)
		}
	}
	switch k := rapid.IntRange(0, 9).Draw(t, "mgremove"); {
	case k < 5 && len(victims) > 0:
		v := pick(t, "mgvictim", victims)
		if chance(t, "wholenode", 15) {
			return NewDereg(DeregNode, w.NextIdx(t), v.node, "", "")
		}
		return NewDereg(DeregService, w.NextIdx(t), v.node, v.svc.ID, "")
	case k < 7 && sd != nil:
		return NewConfig(ConfigDelete, w.NextIdx(t), structs.ConfigEntryDelete, &structs.ServiceConfigEntry{Kind: structs.ServiceDefaults, Name: svc})
	case k < 8 && sd == nil:
		return w.c07ConfigSet(t, &structs.ServiceConfigEntry{Kind: structs.ServiceDefaults, Name: svc, Protocol: "tcp"})
	case k < 9 && len(gws) > 0: // re-registration of the gateway instance (tags are rebuilt from the entry)
		g := pick(t, "mggw", gws)
		req := c07BaseReq(g.node, "")
		req.Service = &structs.NodeService{Kind: structs.ServiceKindTerminatingGateway, Service: "term-gw", ID: g.svc.ID, Port: pick(t, "gwport", []int{8444, 8446}),
			Weights: &structs.Weights{Passing: 1, Warning: 1}, EnterpriseMeta: defaultEM}
		return NewRegister(w.NextIdx(t), req)
	case len(victims) > 0:
		v := pick(t, "mgvictim2", victims)
		return NewDereg(DeregService, w.NextIdx(t), v.node, v.svc.ID, "")
	}
	// a connect proxy of another service: the next taker of a freed address
	req := c07BaseReq(pick(t, "node", Nodes), "")
	other := ServiceNames[0]
	for _, n := range ServiceNames {
		if n != svc {
			other = n
		}
	}
	req.Service = c07Proxy(other, "1", nil)
	return NewRegister(w.NextIdx(t), req)
}

func (w *World) c07ConfigSet(t *rapid.T, e structs.ConfigEntry) *Op {
	if err := e.Normalize(); err != nil {
		t.Skip("config entry does not normalise: " + err.Error())
	}
	if err := e.Validate(); err != nil {
		return w.DrawCoord(t) // refused by the endpoint before raft apply: not a command
	}
	return NewConfig(ConfigSet, w.NextIdx(t), structs.ConfigEntryUpsert, e)
}


// c07DrawMorph registers an existing local instance again under the SAME node, service ID and service NAME but with
// another shape (an agent whose service definition was edited and reloaded does exactly this): the kind, the
// connect-native flag and the proxy destination / upstreams may all change in one in-place update, so every derived
// view has to retract what the old shape contributed and add what the new one does. Gateway instances are left alone,
// and the name is kept: a change of name under one ID fans out into every derived table at once (see the listed
// finding in-place-name-or-kind-change-keeps-old-name-rows) and would bury everything else.
func (w *World) c07DrawMorph(t *rapid.T) *Op {
	var cands []c07Inst
	for _, in := range w.c07LocalInstances() {
		if in.svc.Service != structs.ConsulServiceName && (in.svc.Kind == structs.ServiceKindTypical || in.svc.Kind == structs.ServiceKindConnectProxy) {
			cands = append(cands, in)
		}
	}
	if len(cands) == 0 {
		return w.c07DrawProxy(t)
	}
	in := pick(t, "morphinst", cands)
	req := c07BaseReq(in.node, "")
	if _, cur, _ := w.Store.GetNode(in.node, nil, ""); cur != nil {
		req.ID, req.Address, req.NodeMeta, req.TaggedAddresses = cur.ID, cur.Address, cur.Meta, cur.TaggedAddresses
	}
	svc := &structs.NodeService{ID: in.svc.ID, Service: in.svc.Service, Port: in.svc.Port, Tags: in.svc.Tags, Weights: &structs.Weights{Passing: 1, Warning: 1}, EnterpriseMeta: defaultEM}
	switch pick(t, "morphshape", []string{"plain", "native", "native", "proxy", "proxy"}) {
	case "native":
		svc.Connect.Native = true
	case "proxy":
		svc.Kind = structs.ServiceKindConnectProxy
		svc.Proxy = structs.ConnectProxyConfig{DestinationServiceName: pick(t, "morphdest", ServiceNames)}
		if chance(t, "morphups", 40) {
			svc.Proxy.Upstreams = structs.Upstreams{{DestinationType: structs.UpstreamDestTypeService, DestinationName: pick(t, "morphup", ServiceNames), LocalBindPort: 9000}}
		}
	}
	req.Service = svc
	return NewRegister(w.NextIdx(t), req)
}
