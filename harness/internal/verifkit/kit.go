// Package verifkit is the small shared runtime of the /verif property harness.
//
// It is injected into the consul module by build overlay only (never stored in
// /repo). It must stay free of consul imports so that every consul package,
// including leaf packages such as acl and snapshot, can use it from test files.
//
// Responsibilities: per-case bookkeeping (ops, labels, non-triviality), the
// known-finding gate, replay-file writing, and the per-process statistics file
// the driver merges into /verif/evidence/<id>.json.
package verifkit

import (
	"encoding/json"
	"fmt"
	"hash/fnv"
	"os"
	"path/filepath"
	"regexp"
	"runtime/debug"
	"sort"
	"strconv"
	"strings"
	"sync"
)

// F is the failure interface shared by *testing.T and *rapid.T.
type F interface {
	Helper()
	Fatalf(format string, args ...any)
	Logf(format string, args ...any)
}

const (
	maxHashes  = 400000
	maxSamples = 4
	maxSampleOps = 60
)

// Rec collects statistics for one property inside one test process.
type Rec struct {
	mu        sync.Mutex
	Property  string
	known     map[string]bool
	evals     int64
	steps     int64
	nontriv   map[uint64]struct{}
	nontrivN  int64
	labels    map[string]int64
	knownHits map[string]int64
	samples   []Sample
	extra     map[string]any
	violations []ViolationRec
	hashCapHit bool
}

// Sample is one generated case written out for the evidence file.
type Sample struct {
	Labels []string `json:"labels,omitempty"`
	Ops    []any    `json:"ops"`
	Note   string   `json:"note,omitempty"`
}

type ViolationRec struct {
	Key    string `json:"key"`
	Replay string `json:"replay"`
	Detail string `json:"detail"`
}

var (
	regMu sync.Mutex
	reg   = map[string]*Rec{}
)

// For returns the process-wide recorder of a property (created on first use).
func For(property string) *Rec {
	regMu.Lock()
	defer regMu.Unlock()
	if r, ok := reg[property]; ok {
		return r
	}
	r := &Rec{
		Property:  property,
		known:     map[string]bool{},
		nontriv:   map[uint64]struct{}{},
		labels:    map[string]int64{},
		knownHits: map[string]int64{},
		extra:     map[string]any{},
	}
	for _, k := range strings.Split(os.Getenv("VERIF_KNOWN"), ",") {
		k = strings.TrimSpace(k)
		if k != "" {
			r.known[k] = true
		}
	}
	reg[property] = r
	return r
}

// IsKnown reports whether a finding signature is listed as a known finding.
func (r *Rec) IsKnown(key string) bool { return r.known[key] }

// SetExtra stores an additional evidence key (e.g. "exhaustive": true).
func (r *Rec) SetExtra(k string, v any) {
	r.mu.Lock()
	defer r.mu.Unlock()
	r.extra[k] = v
}

// AddExtraInt adds to a numeric extra evidence key.
func (r *Rec) AddExtraInt(k string, n int64) {
	r.mu.Lock()
	defer r.mu.Unlock()
	cur, _ := r.extra[k].(int64)
	r.extra[k] = cur + n
}

// Case is the bookkeeping of one generated case.
type Case struct {
	r        *Rec
	ops      []any
	labels   map[string]bool
	nontriv  bool
	steps    int64
	note     string
	seedNote string
	done     bool
	hits     map[string]int64
}

// NewCase starts a case.
func (r *Rec) NewCase() *Case {
	return &Case{r: r, labels: map[string]bool{}, hits: map[string]int64{}}
}

// Op records one concrete operation (a JSON-serialisable value).
func (c *Case) Op(op any) { c.ops = append(c.ops, op); c.steps++ }

// Ops returns the recorded ops.
func (c *Case) Ops() []any { return c.ops }

// Step counts an executed step that is not recorded as an op.
func (c *Case) Step() { c.steps++ }

// Label classifies the case (counted once per case).
func (c *Case) Label(l string) { c.labels[l] = true }

// Labelf is Label with formatting.
func (c *Case) Labelf(f string, a ...any) { c.labels[fmt.Sprintf(f, a...)] = true }

// HasLabel reports whether the case carries the label.
func (c *Case) HasLabel(l string) bool { return c.labels[l] }

// NonTrivial marks the case as non-trivial by the property's stated rule.
func (c *Case) NonTrivial() { c.nontriv = true }

// Note attaches free text to the case (shown in samples).
func (c *Case) Note(s string) { c.note = s }

// Done commits the case to the statistics. Call exactly once per completed case
// (deferred is fine: a case that fails never reaches the statistics of a passing run).
func (c *Case) Done() {
	if c.done {
		return
	}
	c.done = true
	r := c.r
	r.mu.Lock()
	defer r.mu.Unlock()
	r.evals++
	r.steps += c.steps
	for l := range c.labels {
		r.labels[l]++
	}
	for k, n := range c.hits {
		r.knownHits[k] += n
	}
	if c.nontriv {
		r.nontrivN++
		h := hashOps(c.ops)
		if len(r.nontriv) < maxHashes {
			r.nontriv[h] = struct{}{}
		} else {
			r.hashCapHit = true
		}
		if len(r.samples) < maxSamples {
			r.samples = append(r.samples, c.sample())
		}
	}
}

func (c *Case) sample() Sample {
	ops := c.ops
	note := c.note
	if len(ops) > maxSampleOps {
		note = strings.TrimSpace(note + fmt.Sprintf(" (first %d of %d ops shown)", maxSampleOps, len(ops)))
		ops = ops[:maxSampleOps]
	}
	ls := make([]string, 0, len(c.labels))
	for l := range c.labels {
		ls = append(ls, l)
	}
	sort.Strings(ls)
	cp := make([]any, len(ops))
	copy(cp, ops)
	return Sample{Labels: ls, Ops: cp, Note: note}
}

func hashOps(ops []any) uint64 {
	h := fnv.New64a()
	b, err := json.Marshal(ops)
	if err != nil {
		b = []byte(fmt.Sprintf("%#v", ops))
	}
	h.Write(b)
	return h.Sum64()
}

var sanitize = regexp.MustCompile(`[^A-Za-z0-9_.=-]+`)

// Replay is the on-disk format of a replay file.
type Replay struct {
	Property string            `json:"property"`
	Key      string            `json:"key"`
	Detail   string            `json:"detail"`
	Ops      []json.RawMessage `json:"ops"`
	Note     string            `json:"note,omitempty"`
}

// Violation reports an observation that contradicts the property.
//
// If the signature key is a listed known finding the occurrence is counted and
// tolerated: Violation returns true and the caller re-synchronises its model and
// carries on, so the search continues behind the finding. Otherwise the replay
// file is (over)written and the case fails through f.Fatalf, which does not return.
func (c *Case) Violation(f F, key, format string, args ...any) bool {
	f.Helper()
	detail := fmt.Sprintf(format, args...)
	if c.r.known[key] {
		c.hits[key]++
		return true
	}
	path := c.writeReplay(key, detail)
	c.r.mu.Lock()
	c.r.violations = append(c.r.violations, ViolationRec{Key: key, Replay: path, Detail: trunc(detail, 2000)})
	c.r.mu.Unlock()
	c.r.Flush()
	fmt.Fprintf(os.Stdout, "\nVERIF-VIOLATION property=%s key=%s replay=%s\n", c.r.Property, key, path)
	f.Fatalf("VIOLATION %s key=%s: %s", c.r.Property, key, detail)
	return false
}

// KnownHit records a tolerated occurrence without going through Violation.
func (c *Case) KnownHit(key string) { c.hits[key]++ }

func trunc(s string, n int) string {
	if len(s) > n {
		return s[:n] + "…"
	}
	return s
}

func (c *Case) writeReplay(key, detail string) string {
	dir := os.Getenv("VERIF_REPLAY_DIR")
	if dir == "" {
		dir = os.TempDir()
	}
	_ = os.MkdirAll(dir, 0o755)
	shard := os.Getenv("VERIF_SHARD")
	name := fmt.Sprintf("%s-%s-s%s.json", c.r.Property, sanitize.ReplaceAllString(key, "_"), shard)
	path := filepath.Join(dir, name)
	rp := Replay{Property: c.r.Property, Key: key, Detail: trunc(detail, 8000), Note: c.note}
	for _, op := range c.ops {
		b, err := json.Marshal(op)
		if err != nil {
			b, _ = json.Marshal(fmt.Sprintf("%#v", op))
		}
		rp.Ops = append(rp.Ops, b)
	}
	b, _ := json.MarshalIndent(rp, "", " ")
	_ = os.WriteFile(path, b, 0o644)
	return path
}

// GuardPanic converts a panic of the code under test into a violation with the
// given key prefix. Use as `defer c.GuardPanic(t, "panic")` at the top of a property.
// Panics raised by rapid itself (its control flow) are passed through untouched.
func (c *Case) GuardPanic(f F, keyPrefix string) {
	r := recover()
	if r == nil {
		return
	}
	tn := fmt.Sprintf("%T", r)
	if strings.HasPrefix(tn, "rapid.") || strings.HasPrefix(tn, "*rapid.") {
		panic(r)
	}
	st := string(debug.Stack())
	key := keyPrefix + "/" + panicSite(st)
	if c.r.known[key] {
		c.hits[key]++
		return
	}
	c.Violation(f, key, "panic: %v\n%s", r, trunc(st, 6000))
}

var frameRe = regexp.MustCompile(`(?m)^(github\.com/hashicorp/consul[^\s(]*)\(`)

func panicSite(stack string) string {
	for _, m := range frameRe.FindAllStringSubmatch(stack, -1) {
		fn := m[1]
		if strings.Contains(fn, "verifkit") || strings.Contains(fn, ".verif") || strings.Contains(fn, ".Verif") || strings.Contains(fn, ".TestVerif") {
			continue
		}
		if i := strings.LastIndex(fn, "/"); i >= 0 {
			fn = fn[i+1:]
		}
		return sanitize.ReplaceAllString(fn, "_")
	}
	return "unknown"
}

// LoadReplay reads a replay file.
func LoadReplay(path string) (*Replay, error) {
	b, err := os.ReadFile(path)
	if err != nil {
		return nil, err
	}
	var rp Replay
	if err := json.Unmarshal(b, &rp); err != nil {
		return nil, fmt.Errorf("%s: %w", path, err)
	}
	return &rp, nil
}

// ReplayFiles lists what a replay test has to run: the single file named by
// VERIF_REPLAY, or every *.json under $VERIF_CORPUS/<property>/.
func ReplayFiles(property string) []string {
	if p := os.Getenv("VERIF_REPLAY"); p != "" {
		return []string{p}
	}
	root := os.Getenv("VERIF_CORPUS")
	if root == "" {
		return nil
	}
	m, _ := filepath.Glob(filepath.Join(root, property, "*.json"))
	sort.Strings(m)
	return m
}

// EnvInt reads an integer knob from the environment.
func EnvInt(name string, def int) int {
	if v := os.Getenv(name); v != "" {
		if n, err := strconv.Atoi(v); err == nil {
			return n
		}
	}
	return def
}

// Thorough reports whether the thorough tier is running.
func Thorough() bool { return os.Getenv("VERIF_TIER") == "thorough" }

type statsFile struct {
	Property     string           `json:"property"`
	Evaluations  int64            `json:"evaluations"`
	Steps        int64            `json:"steps"`
	NontrivCases int64            `json:"nontrivial_cases"`
	Hashes       []string         `json:"nontrivial_hashes"`
	HashCapHit   bool             `json:"hash_cap_hit"`
	Labels       map[string]int64 `json:"labels"`
	KnownHits    map[string]int64 `json:"known_hits"`
	Samples      []Sample         `json:"samples"`
	Extra        map[string]any   `json:"extra"`
	Violations   []ViolationRec   `json:"violations"`
}

// Flush writes the statistics of this recorder to $VERIF_STATS.<property>.json.
// Safe to call repeatedly; the last call wins.
func (r *Rec) Flush() {
	base := os.Getenv("VERIF_STATS")
	if base == "" {
		return
	}
	r.mu.Lock()
	sf := statsFile{
		Property: r.Property, Evaluations: r.evals, Steps: r.steps, NontrivCases: r.nontrivN,
		HashCapHit: r.hashCapHit, Labels: r.labels, KnownHits: r.knownHits, Samples: r.samples,
		Extra: r.extra, Violations: r.violations,
	}
	sf.Hashes = make([]string, 0, len(r.nontriv))
	for h := range r.nontriv {
		sf.Hashes = append(sf.Hashes, strconv.FormatUint(h, 16))
	}
	b, err := json.Marshal(sf)
	r.mu.Unlock()
	if err != nil {
		fmt.Fprintf(os.Stderr, "verifkit: cannot marshal stats: %v\n", err)
		return
	}
	path := base + "." + r.Property + ".json"
	tmp := path + ".tmp"
	if err := os.WriteFile(tmp, b, 0o644); err == nil {
		_ = os.Rename(tmp, path)
	}
}

// FlushAll flushes every recorder of the process.
func FlushAll() {
	regMu.Lock()
	rs := make([]*Rec, 0, len(reg))
	for _, r := range reg {
		rs = append(rs, r)
	}
	regMu.Unlock()
	for _, r := range rs {
		r.Flush()
	}
}
