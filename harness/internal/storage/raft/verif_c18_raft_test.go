package raft_test

// C18 on the Raft-backed backend: the same engine (internal/verifc18) drives the leader and the follower of the
// package's own newRaftCluster helper (thorough tier only). Writes, deletes and strongly consistent reads issued
// through the follower are forwarded to the leader over gRPC; watchers subscribe on the leader.
//
// What is NOT asserted here: eventually consistent reads / lists through the follower. The helper replicates logs to
// the follower from a channel that concurrent appliers fill in arbitrary order (real Raft applies in index order), so
// the follower's content is an artefact of the helper, not of consul.
//
// The cluster is built once per process (it is cheap but registers cleanups on the outer test); cases are isolated
// from one another by a per-case suffix of the resource Kind.

import (
	"context"
	"fmt"
	"sync/atomic"
	"testing"
	"time"

	"github.com/hashicorp/consul/internal/storage"
	"github.com/hashicorp/consul/internal/storage/raft"
	"github.com/hashicorp/consul/internal/verifc18"
	"github.com/hashicorp/consul/internal/verifkit"
	"github.com/hashicorp/consul/proto-public/pbresource"
	"pgregory.net/rapid"
)

var verifC18RaftCase atomic.Int64

func verifC18RaftTarget(leader, follower *raft.Backend, serialize bool) *verifc18.Target {
	return &verifc18.Target{
		Uni:                verifc18.Universe{KindSuffix: fmt.Sprintf("%d", verifC18RaftCase.Add(1))},
		Handles:            []storage.Backend{leader, follower},
		Watch:              leader,
		SerializeSubscribe: serialize,
		WatchTimeout:       90 * time.Second, // real time: a timeout is reported as inconclusive, never as a verdict
		Snapshot: func() (func() *pbresource.Resource, error) {
			s, err := leader.Snapshot()
			if err != nil {
				return nil, err
			}
			return func() *pbresource.Resource {
				b, err := s.Next()
				if err != nil || b == nil {
					return nil
				}
				var res pbresource.Resource
				if err := res.UnmarshalBinary(b); err != nil {
					return nil
				}
				return &res
			}, nil
		},
		Restore: func(items []*pbresource.Resource) error {
			r, err := leader.Restore()
			if err != nil {
				return err
			}
			defer r.Abort()
			for _, it := range items {
				b, err := it.MarshalBinary()
				if err != nil {
					return err
				}
				if err := r.Apply(b); err != nil {
					return err
				}
			}
			r.Commit()
			return nil
		},
	}
}

func TestVerifC18Raft(t *testing.T) {
	rec := verifkit.For("C18")
	defer rec.Flush()
	defer verifc18.Watchdog(rec)()
	leader, follower := newRaftCluster(t)
	serialize := rec.IsKnown(verifc18.KeyDeadlock)
	opts := verifc18.CheckOpts{EventualAssertable: []bool{true, false}}
	rapid.Check(t, func(rt *rapid.T) {
		c := rec.NewCase()
		prog := verifc18.GenProg(rt, verifc18.GenOpts{Backend: "raft", Handles: 2, AllowRestore: true, MaxOps: 12})
		c.Op(prog)
		verifc18.Current.Store(prog)
		var h *verifc18.History
		func() {
			verifc18.Progress.Add(1)
			defer verifc18.Progress.Add(1)
			h = verifc18.Run(context.Background(), verifC18RaftTarget(leader, follower, serialize), prog)
		}()
		verifc18.Judge(rt, rec, c, prog, h, opts)
		c.Done()
	})
}
