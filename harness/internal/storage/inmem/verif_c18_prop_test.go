package inmem

// C18 — Resource store: version CAS, stable UIDs, ordered watches (in-memory backend, with snapshot/restore).
//
// The engine (program generator, real-goroutine executor, history oracle) is internal/verifc18; this file binds it
// to inmem.Backend / inmem.Store and owns the test entry points:
//
//	TestVerifC18Store            rapid: programs -> recorded histories -> invariants H1..H5 (+ porcupine)
//	TestVerifC18RestoreVsWatch   rapid: Restoration.Commit concurrent with WatchList (lock order)
//	TestVerifC18Replay           re-checks a recorded history (deterministic) and re-runs its program N times
//	                             (probabilistic: the schedule comes from the Go runtime)
//
// Each case of TestVerifC18Store runs inside a testing/synctest bubble. The bubble does not change how goroutines
// are scheduled; it only provides a fake clock that advances when every goroutine of the case is durably blocked.
// A watcher's Next() timeout can therefore only fire when the publisher is idle and nothing is in flight: "the
// sentinel never arrived" becomes a sound verdict that does not depend on wall-clock time.

import (
	"context"
	"encoding/json"
	"fmt"
	"os"
	"path/filepath"
	"runtime"
	"strings"
	"sync"
	"sync/atomic"
	"testing"
	"testing/synctest"
	"time"

	"github.com/hashicorp/consul/internal/storage"
	"github.com/hashicorp/consul/internal/verifc18"
	"github.com/hashicorp/consul/internal/verifkit"
	"github.com/hashicorp/consul/proto-public/pbresource"
	"pgregory.net/rapid"
)

const verifC18KeyDeadlock = verifc18.KeyDeadlock

// verifC18Target builds a fresh backend. stop() cancels it and waits for the publisher goroutine.
func verifC18Target(bubble bool, serialize bool) (*verifc18.Target, func()) {
	b, err := NewBackend()
	if err != nil {
		panic(err)
	}
	ctx, cancel := context.WithCancel(context.Background())
	done := make(chan struct{})
	go func() { b.Run(ctx); close(done) }()
	tgt := &verifc18.Target{
		Handles:            []storage.Backend{b},
		Watch:              b,
		Bubble:             bubble,
		SerializeSubscribe: serialize,
		WatchTimeout:       120 * time.Second,
		Snapshot: func() (func() *pbresource.Resource, error) {
			s, err := b.store.Snapshot()
			if err != nil {
				return nil, err
			}
			return s.Next, nil
		},
		Restore: func(items []*pbresource.Resource) error {
			r, err := b.store.Restore()
			if err != nil {
				return err
			}
			defer r.Abort()
			for _, it := range items {
				if err := r.Apply(it); err != nil {
					return err
				}
			}
			r.Commit()
			return nil
		},
	}
	return tgt, func() { cancel(); <-done }
}

// verifC18RunOnce executes a program on a fresh backend. Must be called inside a synctest bubble when bubble=true.
func verifC18RunOnce(prog *verifc18.Prog, bubble, serialize bool) *verifc18.History {
	tgt, stop := verifC18Target(bubble, serialize)
	defer stop()
	return verifc18.Run(context.Background(), tgt, prog)
}

func TestVerifC18Store(t *testing.T) {
	rec := verifkit.For("C18")
	defer rec.Flush()
	defer verifc18.Watchdog(rec)()
	serialize := rec.IsKnown(verifC18KeyDeadlock)
	rec.SetExtra("restore_vs_watchlist_serialized_because_known_deadlock", serialize)
	rapid.Check(t, func(rt *rapid.T) {
		c := rec.NewCase()
		prog := verifc18.GenProg(rt, verifc18.GenOpts{Backend: "inmem", Handles: 1, AllowRestore: true})
		c.Op(prog)
		verifc18.Current.Store(prog)
		var h *verifc18.History
		func() {
			verifc18.Progress.Add(1)
			defer verifc18.Progress.Add(1)
			rapid.SyncTest(rt, func(*rapid.T) {
				h = verifC18RunOnce(prog, true, serialize)
			})
		}()
		verifc18.Judge(rt, rec, c, prog, h, verifc18.CheckOpts{})
		c.Done()
	})
}

// ---- Restoration.Commit concurrent with WatchList

type verifC18RWProg struct {
	Kind     string `json:"kind"` // "restore-vs-watch"
	Procs    int    `json:"procs"`
	Restores int    `json:"restores"`
	Watches  int    `json:"watches"`
	Watchers int    `json:"watchers"`
	Q        int    `json:"q"`
	Yield    int    `json:"y"`
}

var verifC18Leaked atomic.Bool // goroutines of a proven deadlock are stuck for good: stop running this property

// verifC18RunRW returns ("", true) when all goroutines finished, (proof, false) on a proven deadlock.
func verifC18RunRW(p verifC18RWProg) (string, bool, error) {
	prev := runtime.GOMAXPROCS(p.Procs)
	defer runtime.GOMAXPROCS(prev)
	tgt, stop := verifC18Target(false, false)
	b := tgt.Watch.(*Backend)
	q := verifc18.QueryOf(p.Q)
	var wg sync.WaitGroup
	var werr atomic.Pointer[error]
	wg.Add(1 + p.Watchers)
	go func() {
		defer wg.Done()
		for i := 0; i < p.Restores; i++ {
			r, err := b.store.Restore()
			if err != nil {
				werr.Store(&err)
				return
			}
			for j := 0; j < p.Yield; j++ {
				runtime.Gosched()
			}
			r.Commit()
		}
	}()
	for w := 0; w < p.Watchers; w++ {
		go func() {
			defer wg.Done()
			ten := &pbresource.Tenancy{Partition: q.Part, Namespace: q.NS}
			for i := 0; i < p.Watches; i++ {
				wt, err := b.WatchList(context.Background(), storage.UnversionedType{Group: "verifc18", Kind: strings.ToLower(q.T)}, ten, q.Prefix)
				if err != nil {
					werr.Store(&err)
					return
				}
				wt.Close()
			}
		}()
	}
	done := make(chan struct{})
	go func() { wg.Wait(); close(done) }()
	deadline := time.Now().Add(time.Duration(verifkit.EnvInt("VERIF_C18_STALL_S", 120)) * time.Second)
	for {
		select {
		case <-done:
			stop()
			if e := werr.Load(); e != nil {
				return "", true, *e
			}
			return "", true, nil
		case <-time.After(20 * time.Millisecond):
		}
		if ok, proof := verifc18.DeadlockProof(); ok {
			return proof, false, nil // the stuck goroutines (and the backend) are abandoned
		}
		if time.Now().After(deadline) {
			return "", false, fmt.Errorf("stalled without a deadlock proof")
		}
	}
}

func TestVerifC18RestoreVsWatch(t *testing.T) {
	rec := verifkit.For("C18")
	defer rec.Flush()
	rapid.Check(t, func(rt *rapid.T) {
		p := verifC18RWProg{Kind: "restore-vs-watch"}
		p.Procs = rapid.SampledFrom([]int{1, 2, 4, 16}).Draw(rt, "procs")
		p.Restores = rapid.IntRange(1, 40).Draw(rt, "restores")
		p.Watches = rapid.IntRange(1, 40).Draw(rt, "watches")
		p.Watchers = rapid.IntRange(1, 3).Draw(rt, "watchers")
		p.Q = rapid.IntRange(0, verifc18.NumQueries-1).Draw(rt, "q")
		p.Yield = rapid.IntRange(0, 2).Draw(rt, "yield")
		c := rec.NewCase()
		c.Op(p)
		c.Label("restore-vs-watchlist")
		if verifC18Leaked.Load() {
			c.Label("restore-vs-watchlist:skipped-after-proven-deadlock")
			c.Done()
			return
		}
		verifC18RWJudge(rt, c, p)
		c.NonTrivial()
		c.Done()
	})
}

func verifC18RWJudge(f verifkit.F, c *verifkit.Case, p verifC18RWProg) {
	proof, finished, err := verifC18RunRW(p)
	switch {
	case err != nil && !finished:
		f.Fatalf("harness (inconclusive): %v", err)
	case err != nil:
		c.Violation(f, "C18/unexpected-error", "restore-vs-watch: %v", err)
	case !finished:
		verifC18Leaked.Store(true)
		verifc18.ProofDisabled.Store(true)
		c.Violation(f, verifC18KeyDeadlock, "Restoration.Commit and WatchList deadlock (opposite lock order on Store.mu and the publisher lock); proven by a stop-the-world stack dump:\n%s", proof)
	}
}

// ---- replay

func TestVerifC18Replay(t *testing.T) {
	rec := verifkit.For("C18")
	defer rec.Flush()
	// an explicit --replay re-runs the program 200 times; the corpus sweep of the quick tier 20 times per file
	runs := 20
	if os.Getenv("VERIF_REPLAY") != "" {
		runs = 200
	}
	runs = verifkit.EnvInt("VERIF_C18_REPLAY_RUNS", runs)
	serialize := rec.IsKnown(verifC18KeyDeadlock)
	for _, path := range verifkit.ReplayFiles("C18") {
		rp, err := verifkit.LoadReplay(path)
		if err != nil {
			t.Fatalf("%v", err)
		}
		if len(rp.Ops) == 0 {
			continue
		}
		var kind struct {
			Kind string `json:"kind"`
		}
		_ = json.Unmarshal(rp.Ops[0], &kind)
		if kind.Kind == "restore-vs-watch" {
			var p verifC18RWProg
			if err := json.Unmarshal(rp.Ops[0], &p); err != nil {
				t.Fatalf("%s: %v", path, err)
			}
			for i := 0; i < runs && !verifC18Leaked.Load(); i++ {
				c := rec.NewCase()
				c.Op(p)
				c.Label("replay")
				verifC18RWJudge(t, c, p)
				c.Done()
			}
			continue
		}
		var prog verifc18.Prog
		if err := json.Unmarshal(rp.Ops[0], &prog); err != nil || prog.Kind != "program" {
			t.Fatalf("%s: first op is not a program (%v)", path, err)
		}
		// (1) deterministic: the recorded history, judged again by the oracle. It is evidence about the run that produced
		// it, not about the tree under test now, so it is logged and cross-checked against the recorded key only.
		if len(rp.Ops) > 1 {
			var h verifc18.History
			if err := json.Unmarshal(rp.Ops[1], &h); err != nil || h.Kind != "history" {
				t.Fatalf("%s: second op is not a history (%v)", path, err)
			}
			probs, _ := verifc18.Check(&h, verifc18.CheckOpts{Tolerate: rec.IsKnown})
			found := false
			for _, p := range probs {
				t.Logf("recorded history of %s: %s: %s", filepath.Base(path), p.Key, p.Detail)
				found = found || p.Key == rp.Key
			}
			if !found {
				t.Fatalf("harness: the oracle no longer derives %s from the history recorded in %s (oracle changed?)", rp.Key, path)
			}
			if os.Getenv("VERIF_C18_REPLAY_STRICT") == "1" {
				c := rec.NewCase()
				c.Op(&prog)
				c.Op(&h)
				for _, p := range probs {
					c.Violation(t, p.Key, "recorded history: %s", p.Detail)
				}
			}
		}
		// (2) probabilistic: the program again, `runs` times, on the tree under test. The schedule comes from the Go
		// runtime; a failure may or may not show again.
		stopWD := verifc18.Watchdog(rec)
		for i := 0; i < runs; i++ {
			c := rec.NewCase()
			c.Op(&prog)
			c.Label("replay")
			verifc18.Current.Store(&prog)
			var h *verifc18.History
			func() {
				verifc18.Progress.Add(1)
				defer verifc18.Progress.Add(1)
				synctest.Test(t, func(*testing.T) {
					h = verifC18RunOnce(&prog, true, serialize)
				})
			}()
			verifc18.Judge(t, rec, c, &prog, h, verifc18.CheckOpts{})
			c.Done()
		}
		stopWD()
	}
}
