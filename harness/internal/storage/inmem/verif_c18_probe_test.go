package inmem

import (
	"context"
	"testing"
	"time"

	"github.com/hashicorp/consul/internal/storage"
	"github.com/hashicorp/consul/proto-public/pbresource"
)

func TestVerifC18ProbeStaleHead(t *testing.T) {
	b, _ := NewBackend()
	ctx, cancel := context.WithCancel(context.Background())
	defer cancel()
	go b.Run(ctx)
	ten := &pbresource.Tenancy{Partition: "default", Namespace: "default"}
	typ := &pbresource.Type{Group: "g", GroupVersion: "v1", Kind: "k"}
	ut := storage.UnversionedTypeFrom(typ)
	w1, _ := b.WatchList(ctx, ut, ten, "")
	next := func(w storage.Watch) string {
		c, cc := context.WithTimeout(ctx, 500*time.Millisecond)
		defer cc()
		e, err := w.Next(c)
		if err != nil {
			return "ERR " + err.Error()
		}
		switch {
		case e.GetUpsert() != nil:
			return "upsert " + e.GetUpsert().Resource.Id.Name + "@" + e.GetUpsert().Resource.Version
		case e.GetDelete() != nil:
			return "delete " + e.GetDelete().Resource.Id.Name + "@" + e.GetDelete().Resource.Version
		}
		return "EOS"
	}
	t.Log("w1", next(w1))
	r := &pbresource.Resource{Id: &pbresource.ID{Type: typ, Tenancy: ten, Name: "a", Uid: "u1"}}
	r1, err := b.WriteCAS(ctx, r)
	if err != nil {
		t.Fatal(err)
	}
	t.Log("w1", next(w1))
	snap, _ := b.store.Snapshot()
	var items []*pbresource.Resource
	for x := snap.Next(); x != nil; x = snap.Next() {
		items = append(items, x)
	}
	r2, _ := b.WriteCAS(ctx, r1)
	r3, _ := b.WriteCAS(ctx, r2)
	t.Log("w1", next(w1))
	t.Log("w1", next(w1))
	rest, _ := b.store.Restore()
	for _, x := range items {
		rest.Apply(x)
	}
	rest.Commit()
	// w1 not closed yet
	w2, _ := b.WatchList(ctx, ut, ten, "")
	for i := 0; i < 4; i++ {
		t.Log("w2", next(w2))
	}
	got, err := b.Read(ctx, storage.StrongConsistency, r3.Id)
	t.Logf("read: %v %v", got.GetVersion(), err)
	t.Log("w1", next(w1))
	// now a post-restore write
	r4, err := b.WriteCAS(ctx, r1)
	t.Logf("write after restore: %v %v", r4.GetVersion(), err)
	t.Log("w2", next(w2))
	w1.Close()
	w2.Close()
	w3, _ := b.WatchList(ctx, ut, ten, "")
	for i := 0; i < 3; i++ {
		t.Log("w3", next(w3))
	}
}
