package snapshot

// C20 — Snapshot archives: exact round trip, corruption always detected.
//
// Generated: state payloads and raft metadata -> archives written by the package's own write()
// (plain tar) and gzip-wrapped as snapshot.New does. On every archive a fault ENUMERATION is run:
// every single-byte position x masks, every truncation length, member removal / duplication /
// reordering / injection, header edits with recomputed tar checksum, SHA256SUMS edits.
//
// Oracle: round trip is exact; for every faulted archive  accept => extracted state bytes and
// metadata are identical to the originals; and the statement's must-reject classes are rejected:
// a flipped byte inside meta.json / state.bin data, truncation before the last member's data is
// complete, a missing (non-empty) member, a missing SHA256SUMS or checksum line, an unexpected
// member name. On error from snapshot.Read no file handle is returned.

import (
	"archive/tar"
	"bytes"
	"compress/gzip"
	"encoding/base64"
	"encoding/json"
	"fmt"
	"io"
	"os"
	"path/filepath"
	"reflect"
	"strconv"
	"strings"
	"testing"
	"time"

	"github.com/hashicorp/consul/internal/verifkit"
	"github.com/hashicorp/go-hclog"
	"github.com/hashicorp/raft"
	"pgregory.net/rapid"
)

type verifC20Archive struct {
	Kind     string `json:"kind"` // "archive"
	StateB64 string `json:"state_b64"`
	MetaJSON string `json:"meta_json"`
	Gzip     bool   `json:"gzip"`
}

type verifC20Fault struct {
	Kind string `json:"kind"` // flip | trunc | remove | dup | reorder | inject | hdr | sums | append
	Pos  int    `json:"pos,omitempty"`
	Mask int    `json:"mask,omitempty"`
	Arg  string `json:"arg,omitempty"`
	Arg2 string `json:"arg2,omitempty"`
}

type verifC20Member struct {
	name           string
	hdrOff         int // offset of the 512-byte header
	dataOff, size  int
	end            int // end of data incl. padding
}

// verifC20Layout walks a plain USTAR archive produced by write().
func verifC20Layout(a []byte) ([]verifC20Member, error) {
	var ms []verifC20Member
	off := 0
	for off+512 <= len(a) {
		blk := a[off : off+512]
		if bytes.Equal(blk, make([]byte, 512)) {
			break
		}
		name := string(bytes.TrimRight(blk[0:100], "\x00"))
		sz, err := strconv.ParseInt(strings.Trim(string(blk[124:136]), " \x00"), 8, 64)
		if err != nil {
			return nil, fmt.Errorf("size field: %v", err)
		}
		m := verifC20Member{name: name, hdrOff: off, dataOff: off + 512, size: int(sz)}
		m.end = m.dataOff + (int(sz)+511)/512*512
		ms = append(ms, m)
		off = m.end
	}
	if len(ms) != 3 || ms[0].name != "meta.json" || ms[1].name != "state.bin" || ms[2].name != "SHA256SUMS" {
		return nil, fmt.Errorf("unexpected layout %+v", ms)
	}
	return ms, nil
}

func verifC20FixChecksum(hdr []byte) {
	copy(hdr[148:156], "        ")
	var sum int
	for _, b := range hdr[:512] {
		sum += int(b)
	}
	copy(hdr[148:156], fmt.Sprintf("%06o\x00 ", sum))
}

func verifC20RawMember(name string, typeflag byte, data []byte) []byte {
	hdr := make([]byte, 512)
	copy(hdr[0:100], name)
	copy(hdr[100:108], "0000600\x00")
	copy(hdr[108:116], "0000000\x00")
	copy(hdr[116:124], "0000000\x00")
	copy(hdr[124:136], fmt.Sprintf("%011o\x00", len(data)))
	copy(hdr[136:148], "00000000000\x00")
	hdr[156] = typeflag
	copy(hdr[257:263], "ustar\x00")
	copy(hdr[263:265], "00")
	verifC20FixChecksum(hdr)
	out := append([]byte{}, hdr...)
	out = append(out, data...)
	if p := len(data) % 512; p != 0 {
		out = append(out, make([]byte, 512-p)...)
	}
	return out
}

func verifC20Gzip(b []byte) []byte {
	var buf bytes.Buffer
	w := gzip.NewWriter(&buf)
	_, _ = w.Write(b)
	_ = w.Close()
	return buf.Bytes()
}

// verifC20ReadPlain runs the package's read() on a plain archive.
func verifC20ReadPlain(a []byte) (state []byte, meta raft.SnapshotMeta, err error) {
	var out bytes.Buffer
	err = read(bytes.NewReader(a), &meta, &out)
	return out.Bytes(), meta, err
}

type verifC20Ctx struct {
	t      verifkit.F
	c      *verifkit.Case
	rec    *verifkit.Rec
	state  []byte
	meta   raft.SnapshotMeta
	gz     bool
	useRead bool // exercise snapshot.Read (temp files) instead of Verify for gzip
	both    bool // additionally run both entry points and demand the same verdict
	faults  int64
	regions map[string]int64
}

func (x *verifC20Ctx) count(region string) { x.faults++; x.regions[region]++ }

// check applies the oracle to one faulted archive. mustReject: the statement demands rejection.
func (x *verifC20Ctx) check(f verifC20Fault, a []byte, mustReject bool, region string) {
	x.count(region)
	var (
		gotState []byte
		gotMeta  raft.SnapshotMeta
		err      error
	)
	if x.gz && x.both {
		// the two public entry points implement the same verification: an archive Verify rejects must never be
		// accepted on the restore path (snapshot.Read feeds Restore), and vice versa
		_, ve := Verify(bytes.NewReader(a))
		file, _, re := Read(hclog.NewNullLogger(), bytes.NewReader(a))
		if file != nil {
			file.Close()
			os.Remove(file.Name())
		}
		if (ve == nil) != (re == nil) {
			x.fail(f, "C20/verify-and-restore-path-disagree/"+region, "fault %+v: Verify says %v but Read (the restore path) says %v", f, ve, re)
		}
	}
	if !x.gz {
		gotState, gotMeta, err = verifC20ReadPlain(a)
	} else if x.useRead {
		file, m, e := Read(hclog.NewNullLogger(), bytes.NewReader(a))
		err = e
		if e != nil {
			if file != nil {
				x.fail(f, "C20/read-error-returns-file", "snapshot.Read returned an error AND a file handle: %v", e)
			}
		} else {
			gotMeta = *m
			gotState, _ = io.ReadAll(file)
			file.Close()
			os.Remove(file.Name())
		}
	} else {
		m, e := Verify(bytes.NewReader(a))
		err = e
		if e == nil {
			gotMeta = *m
			gotState = x.state // Verify discards the state; content equality is checked through Read on the sampled subset
		}
	}
	if err != nil {
		return
	}
	if mustReject {
		x.fail(f, "C20/accepted-must-reject/"+region, "fault %+v (region %s) was accepted although the statement demands rejection", f, region)
		return
	}
	if !bytes.Equal(gotState, x.state) {
		x.fail(f, "C20/accepted-different-state/"+region, "fault %+v accepted but extracted state differs (len %d vs %d)", f, len(gotState), len(x.state))
		return
	}
	if !reflect.DeepEqual(gotMeta, x.meta) {
		x.fail(f, "C20/accepted-different-meta/"+region, "fault %+v accepted but metadata differs:\n got %+v\nwant %+v", f, gotMeta, x.meta)
	}
}

func (x *verifC20Ctx) fail(f verifC20Fault, key, format string, args ...any) {
	ops := x.c.Ops()
	_ = ops
	x.c.Op(f)
	x.c.Violation(x.t, key, format, args...)
}

// verifC20RunArchive: round trip + fault enumeration for one (state, meta). full=false samples data bytes.
func verifC20RunArchive(t verifkit.F, c *verifkit.Case, rec *verifkit.Rec, state []byte, meta raft.SnapshotMeta, gz bool,
	full bool, samplePos func(n int) []int, only *verifC20Fault) {
	meta.Size = int64(len(state))
	var plain bytes.Buffer
	if err := write(&plain, &meta, bytes.NewReader(state)); err != nil {
		t.Fatalf("write failed on valid input: %v", err)
	}
	arch := plain.Bytes()
	x := &verifC20Ctx{t: t, c: c, rec: rec, state: state, meta: meta, gz: false, regions: map[string]int64{}}

	// round trip, plain
	gs, gm, err := verifC20ReadPlain(arch)
	if err != nil {
		c.Violation(t, "C20/roundtrip-rejected", "read(write(x)) failed: %v", err)
	}
	if !bytes.Equal(gs, state) {
		c.Violation(t, "C20/roundtrip-state", "round trip changed state bytes (len %d vs %d)", len(gs), len(state))
	}
	if !reflect.DeepEqual(gm, meta) {
		c.Violation(t, "C20/roundtrip-meta", "round trip changed metadata:\n got %+v\nwant %+v", gm, meta)
	}
	ms, err := verifC20Layout(arch)
	if err != nil {
		t.Fatalf("harness: cannot lay out archive: %v", err)
	}
	if gz {
		verifC20Gz(x, arch, full, samplePos, only)
	} else {
		verifC20Plain(x, arch, ms, full, samplePos, only)
	}
	rec.AddExtraInt("faults_tried", x.faults)
	for k, v := range x.regions {
		rec.AddExtraInt("faults_region_"+k, v)
	}
	if full {
		rec.AddExtraInt("archives_fully_enumerated", 1)
	}
}

func verifC20Region(ms []verifC20Member, pos int, alen int) (string, bool) {
	for _, m := range ms {
		switch {
		case pos >= m.hdrOff && pos < m.dataOff:
			return "header:" + m.name, false
		case pos >= m.dataOff && pos < m.dataOff+m.size:
			return "data:" + m.name, m.name != "SHA256SUMS"
		case pos >= m.dataOff+m.size && pos < m.end:
			return "padding:" + m.name, false
		}
	}
	return "trailer", false
}

var verifC20Masks = []int{0x01, 0x20, 0x80, 0xFF}

func verifC20Plain(x *verifC20Ctx, arch []byte, ms []verifC20Member, full bool, samplePos func(n int) []int, only *verifC20Fault) {
	apply := func(f verifC20Fault) {
		a, mustReject, region, ok := verifC20ApplyPlain(arch, ms, f, x.state)
		if !ok {
			return
		}
		x.check(f, a, mustReject, region)
	}
	if only != nil {
		apply(*only)
		return
	}
	// (1) byte flips
	var positions []int
	if full {
		for p := 0; p < len(arch); p++ {
			positions = append(positions, p)
		}
	} else {
		seen := map[int]bool{}
		add := func(p int) {
			if p >= 0 && p < len(arch) && !seen[p] {
				seen[p] = true
				positions = append(positions, p)
			}
		}
		for _, m := range ms {
			for p := m.hdrOff; p < m.dataOff; p++ {
				add(p)
			}
			if m.size <= 1024 {
				for p := m.dataOff; p < m.end; p++ {
					add(p)
				}
			} else {
				for i := 0; i < 64; i++ {
					add(m.dataOff + i)
					add(m.dataOff + m.size - 1 - i)
				}
				for p := m.dataOff + m.size; p < m.end; p++ {
					add(p)
				}
			}
		}
		for p := ms[2].end; p < len(arch); p += 7 {
			add(p)
		}
		for _, p := range samplePos(len(arch)) {
			add(p)
		}
	}
	for _, p := range positions {
		for _, mk := range verifC20Masks {
			apply(verifC20Fault{Kind: "flip", Pos: p, Mask: mk})
		}
	}
	// (2) truncations
	if full {
		for l := 0; l < len(arch); l++ {
			apply(verifC20Fault{Kind: "trunc", Pos: l})
		}
	} else {
		for _, l := range positions {
			apply(verifC20Fault{Kind: "trunc", Pos: l})
		}
		for _, m := range ms {
			for _, l := range []int{m.hdrOff, m.dataOff, m.dataOff + m.size - 1, m.dataOff + m.size, m.end - 1, m.end} {
				apply(verifC20Fault{Kind: "trunc", Pos: l})
			}
		}
	}
	// (3) structural edits
	names := []string{"meta.json", "state.bin", "SHA256SUMS"}
	for _, n := range names {
		apply(verifC20Fault{Kind: "remove", Arg: n})
		apply(verifC20Fault{Kind: "dup", Arg: n})
		apply(verifC20Fault{Kind: "dup-adjacent", Arg: n})
	}
	for _, ord := range []string{"012", "021", "102", "120", "201", "210"} {
		apply(verifC20Fault{Kind: "reorder", Arg: ord})
	}
	for _, nm := range []string{"state.bin ", "./state.bin", "extra", "META.JSON", "meta.json/", "sha256sums", "", "state.bin\x00x", strings.Repeat("d/", 40) + "state.bin"} {
		for _, where := range []string{"0", "1", "2", "3"} {
			apply(verifC20Fault{Kind: "inject", Arg: nm, Arg2: where})
		}
	}
	for _, tf := range []string{"5", "2", "1", "6", "3", "4", "7", "g", "S"} { // directory, symlink, hard link, fifo, char, block, contiguous, pax global, GNU sparse
		for _, where := range []string{"0", "2", "3"} {
			apply(verifC20Fault{Kind: "inject-typed", Arg: tf, Arg2: where})
		}
	}
	for _, where := range []string{"0", "1", "2", "3"} {
		apply(verifC20Fault{Kind: "inject-pax", Arg: "state.bin", Arg2: where})
		apply(verifC20Fault{Kind: "inject-pax", Arg: "other", Arg2: where})
		apply(verifC20Fault{Kind: "inject-empty-known", Arg: "state.bin", Arg2: where})
		apply(verifC20Fault{Kind: "inject-empty-known", Arg: "meta.json", Arg2: where})
		apply(verifC20Fault{Kind: "inject-forged-sums", Arg2: where})
	}
	// (4) header edits with recomputed checksum
	for _, n := range names {
		for _, e := range []string{"size-1", "size+1", "size0", "size+512", "name-space", "name-dot", "type-dir", "type-symlink", "type-pax", "type-gnu-long", "type-cont"} {
			apply(verifC20Fault{Kind: "hdr", Arg: n, Arg2: e})
		}
	}
	// (5) SHA256SUMS edits
	for _, e := range []string{"drop-line-0", "drop-line-1", "drop-all", "swap-hashes", "extra-line", "upper-hex", "crlf", "dup-line", "one-space", "truncate-hash", "hash-of-other", "leading-blank", "trailing-garbage-line",
		// cooperating alterations: the list names only ONE member, repeated so that the number of lines still fits, and
		// (second group) the member that is no longer listed is altered as well
		"only-0-x2", "only-0-x3", "only-1-x2", "only-1-x3", "only-0-x2+alter-1", "only-1-x2+alter-0", "only-0-x3+alter-1", "only-1-x3+alter-0"} {
		apply(verifC20Fault{Kind: "sums", Arg: e})
	}
}

// verifC20ApplyPlain builds the faulted archive. Returns (archive, mustReject, region, ok).
func verifC20ApplyPlain(arch []byte, ms []verifC20Member, f verifC20Fault, state []byte) ([]byte, bool, string, bool) {
	seg := func(m verifC20Member) []byte { return arch[m.hdrOff:m.end] }
	trailer := arch[ms[2].end:]
	byName := map[string]int{"meta.json": 0, "state.bin": 1, "SHA256SUMS": 2}
	join := func(parts ...[]byte) []byte {
		var out []byte
		for _, p := range parts {
			out = append(out, p...)
		}
		return out
	}
	switch f.Kind {
	case "flip":
		if f.Pos < 0 || f.Pos >= len(arch) {
			return nil, false, "", false
		}
		a := append([]byte{}, arch...)
		a[f.Pos] ^= byte(f.Mask)
		region, must := verifC20Region(ms, f.Pos, len(arch))
		return a, must, region, true
	case "trunc":
		if f.Pos < 0 || f.Pos >= len(arch) {
			return nil, false, "", false
		}
		last := ms[2]
		must := f.Pos < last.dataOff+last.size
		region := "trunc-after-last-member"
		if must {
			region = "trunc-before-last-member-complete"
		}
		return append([]byte{}, arch[:f.Pos]...), must, region, true
	case "remove":
		i := byName[f.Arg]
		var parts [][]byte
		for j, m := range ms {
			if j != i {
				parts = append(parts, seg(m))
			}
		}
		parts = append(parts, trailer)
		// statement: "lacks a member or its checksum". An EMPTY state member is indistinguishable from an
		// absent one for the checksum scheme and extracts identically, so rejection is demanded only for
		// members that carry data (meta.json always does) and for the checksum list.
		must := ms[i].size > 0
		return join(parts...), must, "remove:" + f.Arg, true
	case "dup":
		i := byName[f.Arg]
		return join(arch[:ms[2].end], seg(ms[i]), trailer), false, "dup:" + f.Arg, true
	case "dup-adjacent":
		i := byName[f.Arg]
		return join(arch[:ms[i].end], seg(ms[i]), arch[ms[i].end:]), false, "dup:" + f.Arg, true
	case "reorder":
		var parts [][]byte
		for _, ch := range f.Arg {
			parts = append(parts, seg(ms[int(ch-'0')]))
		}
		parts = append(parts, trailer)
		return join(parts...), false, "reorder", true
	case "inject", "inject-pax", "inject-empty-known", "inject-forged-sums", "inject-typed":
		where, _ := strconv.Atoi(f.Arg2)
		var extra []byte
		must := false
		region := f.Kind
		switch f.Kind {
		case "inject":
			extra = verifC20RawMember(f.Arg, '0', []byte("injected"))
			// an unexpected member NAME must be rejected. Names that Go's tar reader canonicalises to an expected
			// name would not be "unexpected"; none of the injected names is (checked below by construction).
			parsed := f.Arg
			if i := strings.IndexByte(parsed, 0); i >= 0 {
				parsed = parsed[:i]
			}
			must = parsed != "state.bin" && parsed != "meta.json" && parsed != "SHA256SUMS"
		case "inject-pax":
			rec := func(k, v string) string {
				s := fmt.Sprintf(" %s=%s\n", k, v)
				n := len(s) + 1
				for len(strconv.Itoa(n))+len(s) != n {
					n = len(strconv.Itoa(n)) + len(s)
				}
				return strconv.Itoa(n) + s
			}
			extra = join(verifC20RawMember("PaxHeaders.0/x", 'x', []byte(rec("path", f.Arg))), verifC20RawMember("shortname", '0', []byte("pax-data")))
			must = f.Arg != "state.bin" && f.Arg != "meta.json" && f.Arg != "SHA256SUMS"
		case "inject-typed":
			// an unexpected member that is not a regular file (header-only types carry no data)
			data := []byte(nil)
			if f.Arg == "7" || f.Arg == "g" {
				data = []byte("13 foo=bar\n")[:0]
			}
			if f.Arg == "7" {
				data = []byte("contiguous-payload")
			}
			extra = verifC20RawMember("extra-"+f.Arg, f.Arg[0], data)
			must = true
			region = "inject-typed:" + f.Arg
		case "inject-empty-known":
			extra = verifC20RawMember(f.Arg, '0', nil)
		case "inject-forged-sums":
			extra = verifC20RawMember("SHA256SUMS", '0', []byte{})
		}
		var cut int
		if where >= 3 {
			cut = ms[2].end
		} else {
			cut = ms[where].hdrOff
		}
		return join(arch[:cut], extra, arch[cut:]), must, region, true
	case "after-end-marker":
		// a further member behind the two zero blocks: tar readers stop at the marker, so only the check for
		// left-over bytes in the stream (concludeGzipRead) can notice it; plain read() cannot and need not
		return join(arch, verifC20RawMember(f.Arg, '0', []byte("late")), make([]byte, 1024)), false, "after-end-marker", true
	case "hdr":
		i := byName[f.Arg]
		a := append([]byte{}, arch...)
		h := a[ms[i].hdrOff : ms[i].hdrOff+512]
		setSize := func(n int) {
			if n < 0 {
				n = 0
			}
			copy(h[124:136], fmt.Sprintf("%011o\x00", n))
		}
		switch f.Arg2 {
		case "size-1":
			if ms[i].size == 0 {
				return nil, false, "", false
			}
			setSize(ms[i].size - 1)
		case "size+1":
			setSize(ms[i].size + 1)
		case "size0":
			if ms[i].size == 0 {
				return nil, false, "", false
			}
			setSize(0)
		case "size+512":
			setSize(ms[i].size + 512)
		case "name-space":
			copy(h[0:100], make([]byte, 100))
			copy(h[0:100], f.Arg+" ")
		case "name-dot":
			copy(h[0:100], make([]byte, 100))
			copy(h[0:100], "./"+f.Arg)
		case "type-dir":
			h[156] = '5'
		case "type-symlink":
			h[156] = '2'
		case "type-pax":
			h[156] = 'x'
		case "type-gnu-long":
			h[156] = 'L'
		case "type-cont":
			h[156] = '7'
		}
		verifC20FixChecksum(h)
		return a, false, "hdr:" + f.Arg2, true
	case "sums":
		m := ms[2]
		data := string(arch[m.dataOff : m.dataOff+m.size])
		lines := strings.Split(strings.TrimSuffix(data, "\n"), "\n")
		if len(lines) != 2 {
			return nil, false, "", false
		}
		must := false
		var nd string
		switch f.Arg {
		case "drop-line-0":
			nd, must = lines[1]+"\n", true
		case "drop-line-1":
			nd, must = lines[0]+"\n", true
		case "drop-all":
			nd, must = "", true
		case "swap-hashes":
			a, b := strings.SplitN(lines[0], "  ", 2), strings.SplitN(lines[1], "  ", 2)
			nd = a[0] + "  " + b[1] + "\n" + b[0] + "  " + a[1] + "\n"
		case "extra-line":
			nd = data + strings.Repeat("0", 64) + "  other\n"
		case "upper-hex":
			a := strings.SplitN(lines[0], "  ", 2)
			nd = strings.ToUpper(a[0]) + "  " + a[1] + "\n" + lines[1] + "\n"
		case "crlf":
			nd = lines[0] + "\r\n" + lines[1] + "\r\n"
		case "dup-line":
			nd = data + lines[0] + "\n"
		case "one-space":
			nd = strings.Replace(lines[0], "  ", " ", 1) + "\n" + lines[1] + "\n"
		case "truncate-hash":
			nd = lines[0][2:] + "\n" + lines[1] + "\n"
		case "hash-of-other":
			a, b := strings.SplitN(lines[0], "  ", 2), strings.SplitN(lines[1], "  ", 2)
			nd = a[0] + "  " + a[1] + "\n" + a[0] + "  " + b[1] + "\n"
		case "only-0-x2", "only-0-x3", "only-1-x2", "only-1-x3", "only-0-x2+alter-1", "only-1-x2+alter-0", "only-0-x3+alter-1", "only-1-x3+alter-0":
			keep := int(f.Arg[5] - '0')
			nd, must = strings.Repeat(lines[keep]+"\n", int(f.Arg[8]-'0')), true // the other member has no checksum line
			if strings.Contains(f.Arg, "+alter-") {
				// alter the member that lost its line (its name is the second field of the dropped line)
				dropped := strings.SplitN(lines[1-keep], "  ", 2)
				a := join(arch[:m.hdrOff], verifC20RawMember("SHA256SUMS", '0', []byte(nd)), trailer)
				for _, vm := range ms[:2] {
					if len(dropped) == 2 && vm.name == dropped[1] && vm.size > 0 {
						a[vm.dataOff+vm.size/2] ^= 0x01
						return a, true, "sums:" + f.Arg, true
					}
				}
				return nil, false, "", false
			}
		case "leading-blank":
			nd = "\n" + data
		case "trailing-garbage-line":
			nd = data + "garbage\n"
		}
		return join(arch[:m.hdrOff], verifC20RawMember("SHA256SUMS", '0', []byte(nd)), trailer), must, "sums:" + f.Arg, true
	}
	return nil, false, "", false
}

func verifC20Gz(x *verifC20Ctx, plain []byte, full bool, samplePos func(n int) []int, only *verifC20Fault) {
	x.gz = true
	gzArch := verifC20Gzip(plain)
	// round trip through the public entry points
	for _, useRead := range []bool{false, true} {
		x.useRead = useRead
		x.check(verifC20Fault{Kind: "none"}, gzArch, false, "gz-none")
	}
	apply := func(f verifC20Fault) {
		var a []byte
		region := "gz-" + f.Kind
		switch f.Kind {
		case "flip":
			if f.Pos >= len(gzArch) {
				return
			}
			a = append([]byte{}, gzArch...)
			a[f.Pos] ^= byte(f.Mask)
		case "trunc":
			if f.Pos >= len(gzArch) {
				return
			}
			a = append([]byte{}, gzArch[:f.Pos]...)
		case "append":
			switch f.Arg {
			case "garbage":
				a = append(append([]byte{}, gzArch...), []byte("garbage")...)
			case "zero-bytes":
				a = append(append([]byte{}, gzArch...), make([]byte, 16)...)
			case "gz-member-empty":
				a = append(append([]byte{}, gzArch...), verifC20Gzip(nil)...)
			case "gz-member-data":
				a = append(append([]byte{}, gzArch...), verifC20Gzip([]byte("more"))...)
			case "gz-member-tar":
				a = append(append([]byte{}, gzArch...), verifC20Gzip(verifC20RawMember("state.bin", '0', []byte("more")))...)
			}
		case "inner":
			// a plain-archive fault, then gzip: exercises the same must-reject classes through Verify/Read
			var inner verifC20Fault
			_ = json.Unmarshal([]byte(f.Arg), &inner)
			ms, _ := verifC20Layout(plain)
			pa, must, reg, ok := verifC20ApplyPlain(plain, ms, inner, x.state)
			if !ok {
				return
			}
			x.useRead = f.Arg2 == "read"
			x.both = true
			x.check(f, verifC20Gzip(pa), must, "gz-inner-"+reg)
			x.both = false
			return
		}
		x.useRead = f.Arg2 == "read"
		x.both = f.Kind == "append" || ((f.Kind == "flip" || f.Kind == "trunc") && (f.Pos >= len(gzArch)-16 || f.Pos < 12 || f.Pos%9 == 0))
		must := false
		if f.Kind == "append" && f.Arg == "gz-member-tar" {
			must = true // a concatenated stream carrying another member: "contains an unexpected member"
			region = "gz-append-member"
		}
		x.check(f, a, must, region)
		x.both = false
	}
	if only != nil {
		apply(*only)
		return
	}
	var positions []int
	if full {
		for p := 0; p < len(gzArch); p++ {
			positions = append(positions, p)
		}
	} else {
		seen := map[int]bool{}
		for i := 0; i < 48; i++ {
			for _, p := range []int{i, len(gzArch) - 1 - i} {
				if p >= 0 && p < len(gzArch) && !seen[p] {
					seen[p] = true
					positions = append(positions, p)
				}
			}
		}
		for _, p := range samplePos(len(gzArch)) {
			if !seen[p] {
				seen[p] = true
				positions = append(positions, p)
			}
		}
	}
	for i, p := range positions {
		for _, mk := range verifC20Masks {
			how := "verify"
			if (i+mk)%5 == 0 {
				how = "read"
			}
			apply(verifC20Fault{Kind: "flip", Pos: p, Mask: mk, Arg2: how})
		}
		how := "verify"
		if i%4 == 0 {
			how = "read"
		}
		apply(verifC20Fault{Kind: "trunc", Pos: p, Arg2: how})
	}
	for _, a := range []string{"garbage", "zero-bytes", "gz-member-empty", "gz-member-data", "gz-member-tar"} {
		apply(verifC20Fault{Kind: "append", Arg: a, Arg2: "verify"})
		apply(verifC20Fault{Kind: "append", Arg: a, Arg2: "read"})
	}
	// inner structural faults through the public entry points
	ms, _ := verifC20Layout(plain)
	var inners []verifC20Fault
	for _, n := range []string{"meta.json", "state.bin", "SHA256SUMS"} {
		inners = append(inners, verifC20Fault{Kind: "remove", Arg: n}, verifC20Fault{Kind: "dup", Arg: n})
	}
	for _, ord := range []string{"021", "102", "120", "201", "210"} {
		inners = append(inners, verifC20Fault{Kind: "reorder", Arg: ord})
	}
	for _, nm := range []string{"state.bin ", "./state.bin", "extra"} {
		for _, w := range []string{"0", "2", "3"} {
			inners = append(inners, verifC20Fault{Kind: "inject", Arg: nm, Arg2: w})
		}
	}
	for _, e := range []string{"drop-line-0", "drop-line-1", "drop-all", "swap-hashes", "extra-line", "crlf"} {
		inners = append(inners, verifC20Fault{Kind: "sums", Arg: e})
	}
	for _, m := range ms {
		for _, p := range []int{m.hdrOff, m.hdrOff + 124, m.hdrOff + 156, m.dataOff, m.dataOff + m.size/2, m.dataOff + m.size - 1} {
			if p >= m.hdrOff && p < m.end {
				inners = append(inners, verifC20Fault{Kind: "flip", Pos: p, Mask: 0x01})
			}
		}
		inners = append(inners, verifC20Fault{Kind: "trunc", Pos: m.dataOff + m.size/2}, verifC20Fault{Kind: "trunc", Pos: m.hdrOff})
	}
	inners = append(inners, verifC20Fault{Kind: "after-end-marker", Arg: "state.bin"}, verifC20Fault{Kind: "after-end-marker", Arg: "extra"})
	for _, tf := range []string{"5", "2", "7", "g"} {
		inners = append(inners, verifC20Fault{Kind: "inject-typed", Arg: tf, Arg2: "0"}, verifC20Fault{Kind: "inject-typed", Arg: tf, Arg2: "3"})
	}
	for i, in := range inners {
		b, _ := json.Marshal(in)
		how := "verify"
		if i%2 == 0 {
			how = "read"
		}
		apply(verifC20Fault{Kind: "inner", Arg: string(b), Arg2: how})
	}
}

// ---- generators

func verifC20GenMeta(t *rapid.T) raft.SnapshotMeta {
	m := raft.SnapshotMeta{
		Version:            raft.SnapshotVersion(rapid.IntRange(0, 1).Draw(t, "ver")),
		ID:                 rapid.StringMatching(`[a-zA-Z0-9\-é" \\]{0,24}`).Draw(t, "id"),
		Index:              rapid.Uint64().Draw(t, "index"),
		Term:               rapid.Uint64().Draw(t, "term"),
		ConfigurationIndex: rapid.Uint64().Draw(t, "cfgidx"),
	}
	if rapid.Bool().Draw(t, "peers") {
		m.Peers = rapid.SliceOfN(rapid.Byte(), 1, 40).Draw(t, "peersb")
	}
	n := rapid.IntRange(0, 3).Draw(t, "nservers")
	for i := 0; i < n; i++ {
		m.Configuration.Servers = append(m.Configuration.Servers, raft.Server{
			Suffrage: raft.ServerSuffrage(rapid.IntRange(0, 2).Draw(t, "suff")),
			ID:       raft.ServerID(rapid.StringMatching(`[a-z0-9\-]{1,12}`).Draw(t, "sid")),
			Address:  raft.ServerAddress(rapid.StringMatching(`[a-z0-9\.:]{1,16}`).Draw(t, "addr")),
		})
	}
	return m
}

func verifC20GenState(t *rapid.T, sizes []int, maxDrawn int) []byte {
	var n int
	if rapid.IntRange(0, 9).Draw(t, "sizeclass") < 7 {
		n = rapid.SampledFrom(sizes).Draw(t, "size")
	} else {
		n = rapid.IntRange(0, maxDrawn).Draw(t, "sizeN")
	}
	style := rapid.IntRange(0, 4).Draw(t, "style")
	b := make([]byte, n)
	switch style {
	case 0: // arbitrary bytes
		seedBytes := rapid.SliceOfN(rapid.Byte(), 1, 64).Draw(t, "bytes")
		for i := range b {
			b[i] = seedBytes[i%len(seedBytes)] + byte(i/len(seedBytes))
		}
	case 1: // looks like a tar header for an expected member
		copy(b, verifC20RawMember(rapid.SampledFrom([]string{"state.bin", "SHA256SUMS", "meta.json", "evil"}).Draw(t, "innername"), '0', []byte("inner")))
	case 2: // looks like SHA256SUMS content
		copy(b, strings.Repeat(strings.Repeat("0", 64)+"  state.bin\n", n/76+1))
	case 3: // zeros (indistinguishable from tar padding / trailer)
	case 4: // msgpack-ish, as real FSM snapshots start
		copy(b, []byte{0x81, 0xa9, 'L', 'a', 's', 't', 'I', 'n', 'd', 'e', 'x', 0xcf, 0, 0, 0, 0, 0, 0, 0, 42})
		fill := rapid.Byte().Draw(t, "fill")
		for i := 20; i < n; i++ {
			b[i] = fill ^ byte(i*31)
		}
	}
	return b
}

func verifC20Record(c *verifkit.Case, state []byte, meta raft.SnapshotMeta, gz bool) {
	mj, _ := json.Marshal(meta)
	c.Op(verifC20Archive{Kind: "archive", StateB64: base64.StdEncoding.EncodeToString(state), MetaJSON: string(mj), Gzip: gz})
}

func verifC20CleanTmp() {
	m, _ := filepath.Glob(filepath.Join(os.TempDir(), "snapshot*"))
	for _, f := range m {
		_ = os.Remove(f)
	}
}

func verifC20TmpDir(t *testing.T) {
	// snapshot.Read leaks its temp file on error paths; keep them in a private directory that is removed.
	d, err := os.MkdirTemp("", "verifc20")
	if err != nil {
		t.Fatal(err)
	}
	t.Setenv("TMPDIR", d)
	t.Cleanup(func() { os.RemoveAll(d) })
}

// TestVerifC20Small: small archives, EVERY byte position x 4 masks and EVERY truncation length.
func TestVerifC20Small(t *testing.T) {
	rec := verifkit.For("C20")
	defer rec.Flush()
	verifC20TmpDir(t)
	n := 0
	rapid.Check(t, func(t *rapid.T) {
		c := rec.NewCase()
		state := verifC20GenState(t, []int{0, 1, 2, 63, 511, 512, 513, 1023, 1024}, 1500)
		meta := verifC20GenMeta(t)
		gz := rapid.Bool().Draw(t, "gzip")
		verifC20Record(c, state, meta, gz)
		c.Labelf("gzip=%v", gz)
		c.Labelf("state_len_class=%s", verifC20LenClass(len(state)))
		verifC20RunArchive(t, c, rec, state, meta, gz, true, nil, nil)
		c.NonTrivial() // every archive gets faults inside member data, headers and SHA256SUMS (all positions enumerated)
		c.Done()
		n++
		if n%8 == 0 {
			verifC20CleanTmp()
		}
	})
}

func verifC20LenClass(n int) string {
	switch {
	case n == 0:
		return "0"
	case n < 512:
		return "<512"
	case n%512 == 0:
		return "block-aligned"
	case n < 4096:
		return "<4096"
	}
	return ">=4096"
}

// TestVerifC20Large: payloads up to 64 KiB; headers, SHA256SUMS, member edges and padding exhaustively, data bytes sampled.
func TestVerifC20Large(t *testing.T) {
	rec := verifkit.For("C20")
	defer rec.Flush()
	verifC20TmpDir(t)
	rapid.Check(t, func(t *rapid.T) {
		c := rec.NewCase()
		state := verifC20GenState(t, []int{4096, 4097, 8191, 65536}, 65536)
		meta := verifC20GenMeta(t)
		gz := rapid.Bool().Draw(t, "gzip")
		verifC20Record(c, state, meta, gz)
		c.Labelf("gzip=%v", gz)
		c.Labelf("state_len_class=%s", verifC20LenClass(len(state)))
		c.Label("sampled-data-bytes")
		sample := func(n int) []int {
			k := 96
			out := make([]int, 0, k)
			for i := 0; i < k; i++ {
				out = append(out, rapid.IntRange(0, n-1).Draw(t, "pos"))
			}
			return out
		}
		verifC20RunArchive(t, c, rec, state, meta, gz, false, sample, nil)
		c.NonTrivial()
		c.Done()
		verifC20CleanTmp()
	})
}

// TestVerifC20Replay re-executes saved cases without rapid: ops[0] is the archive, ops[1] (optional) one fault.
func TestVerifC20Replay(t *testing.T) {
	rec := verifkit.For("C20")
	defer rec.Flush()
	verifC20TmpDir(t)
	for _, path := range verifkit.ReplayFiles("C20") {
		rp, err := verifkit.LoadReplay(path)
		if err != nil {
			t.Fatalf("%v", err)
		}
		if len(rp.Ops) == 0 {
			continue
		}
		var a verifC20Archive
		if err := json.Unmarshal(rp.Ops[0], &a); err != nil {
			t.Fatalf("%s: %v", path, err)
		}
		state, _ := base64.StdEncoding.DecodeString(a.StateB64)
		var meta raft.SnapshotMeta
		if err := json.Unmarshal([]byte(a.MetaJSON), &meta); err != nil {
			t.Fatalf("%s: %v", path, err)
		}
		c := rec.NewCase()
		c.Op(a)
		c.Label("replay")
		var only *verifC20Fault
		if len(rp.Ops) > 1 {
			var f verifC20Fault
			if err := json.Unmarshal(rp.Ops[1], &f); err == nil && f.Kind != "" {
				only = &f
			}
		}
		verifC20RunArchive(t, c, rec, state, meta, a.Gzip, len(state) <= 1500, func(int) []int { return nil }, only)
		c.Done()
	}
}

var _ = tar.TypeReg

// TestVerifC20RaftPath: archives produced by the real snapshot.New on an in-memory raft; sampled faults are fed to
// snapshot.Restore on a second raft. Oracle: Restore either fails and leaves the target FSM untouched ("never
// handed to restore") or succeeds and the target FSM holds exactly the source's logs.
func TestVerifC20RaftPath(t *testing.T) {
	rec := verifkit.For("C20")
	defer rec.Flush()
	verifC20TmpDir(t)
	dir := t.TempDir()
	src, _ := makeRaft(t, filepath.Join(dir, "src"))
	defer src.Shutdown()
	dst, dstFSM := makeRaft(t, filepath.Join(dir, "dst"))
	defer dst.Shutdown()
	logger := hclog.NewNullLogger()
	var applied [][]byte
	// the target must hold something recognisable so that "untouched" is observable
	if err := dst.Apply([]byte("dst-sentinel"), 5*time.Second).Error(); err != nil {
		t.Fatalf("apply: %v", err)
	}
	dstLogs := func() [][]byte {
		dstFSM.Lock()
		defer dstFSM.Unlock()
		out := make([][]byte, len(dstFSM.logs))
		for i, l := range dstFSM.logs {
			out[i] = append([]byte(nil), l...)
		}
		return out
	}
	rapid.Check(t, func(t *rapid.T) {
		c := rec.NewCase()
		n := rapid.IntRange(1, 6).Draw(t, "nlogs")
		for i := 0; i < n; i++ {
			b := rapid.SliceOfN(rapid.Byte(), 0, 300).Draw(t, "log")
			if err := src.Apply(b, 5*time.Second).Error(); err != nil {
				t.Fatalf("apply: %v", err)
			}
			applied = append(applied, b)
		}
		snap, err := New(logger, src)
		if err != nil {
			t.Fatalf("snapshot.New: %v", err)
		}
		arch, err := io.ReadAll(snap)
		snap.Close()
		if err != nil {
			t.Fatalf("read archive: %v", err)
		}
		c.Op(map[string]any{"kind": "raft-archive", "logs": len(applied), "archive_len": len(arch)})
		c.Label("raft-path")
		before := dstLogs()
		nf := rapid.IntRange(4, 10).Draw(t, "nfaults")
		for i := 0; i < nf; i++ {
			a := append([]byte(nil), arch...)
			f := verifC20Fault{Kind: pick3(rapid.IntRange(0, 2).Draw(t, "fk"))}
			switch f.Kind {
			case "flip":
				f.Pos, f.Mask = rapid.IntRange(0, len(a)-1).Draw(t, "pos"), rapid.SampledFrom(verifC20Masks).Draw(t, "mask")
				a[f.Pos] ^= byte(f.Mask)
			case "trunc":
				f.Pos = rapid.IntRange(0, len(a)-1).Draw(t, "len")
				a = a[:f.Pos]
			case "append":
				a = append(a, []byte("garbage")...)
			}
			rec.AddExtraInt("faults_tried", 1)
			rec.AddExtraInt("faults_region_raft-"+f.Kind, 1)
			err := Restore(logger, bytes.NewReader(a), dst)
			got := dstLogs()
			if err != nil {
				if !verifC20SameLogs(got, before) {
					c.Op(f)
					c.Violation(t, "C20/rejected-archive-reached-restore", "Restore failed (%v) for fault %+v but the target FSM changed (%d -> %d logs)", err, f, len(before), len(got))
				}
				continue
			}
			if !verifC20SameLogs(got, applied) {
				c.Op(f)
				c.Violation(t, "C20/accepted-different-state/raft-"+f.Kind, "Restore accepted fault %+v but the target FSM holds %d logs, source has %d", f, len(got), len(applied))
			}
			before = got
		}
		// the intact archive restores exactly
		if err := Restore(logger, bytes.NewReader(arch), dst); err != nil {
			c.Violation(t, "C20/roundtrip-rejected", "Restore of the intact archive failed: %v", err)
		}
		if got := dstLogs(); !verifC20SameLogs(got, applied) {
			c.Violation(t, "C20/roundtrip-state", "Restore of the intact archive: target has %d logs, source %d", len(got), len(applied))
		}
		c.NonTrivial()
		c.Done()
		verifC20CleanTmp()
	})
}

func pick3(i int) string { return []string{"flip", "trunc", "append"}[i] }

func verifC20SameLogs(a, b [][]byte) bool {
	if len(a) != len(b) {
		return false
	}
	for i := range a {
		if !bytes.Equal(a[i], b[i]) {
			return false
		}
	}
	return true
}
