package snapshot

// Native coverage-guided fuzz target for C20 (thorough tier). Input: arbitrary bytes, seeded with valid gzip
// archives and a few faulted ones. Oracle inside the target (no reference copy of the payload is available for an
// arbitrary input, so the archive is re-verified INDEPENDENTLY):
//   * Verify and Read (the restore path) give the same verdict;
//   * if accepted: an independent walk of the tar stream finds a SHA256SUMS member that lists, for state.bin and
//     meta.json, exactly the SHA-256 of the bytes Read extracted / of a member whose JSON decodes to the returned
//     metadata — i.e. what is handed to restore is what the archive's own checksum list vouches for;
//   * re-writing the extracted (metadata, state) and reading it back is the identity (round trip).

import (
	"archive/tar"
	"bytes"
	"compress/gzip"
	"crypto/sha256"
	"encoding/hex"
	"encoding/json"
	"io"
	"os"
	"reflect"
	"strings"
	"testing"

	"github.com/hashicorp/go-hclog"
	"github.com/hashicorp/raft"
)

func verifC20FuzzSeed(state []byte, meta raft.SnapshotMeta) []byte {
	meta.Size = int64(len(state))
	var plain bytes.Buffer
	if err := write(&plain, &meta, bytes.NewReader(state)); err != nil {
		panic(err)
	}
	return verifC20Gzip(plain.Bytes())
}

func FuzzVerifC20Archive(f *testing.F) {
	m := raft.SnapshotMeta{Version: 1, ID: "2-10-1", Index: 10, Term: 2, Configuration: raft.Configuration{Servers: []raft.Server{{Suffrage: raft.Voter, ID: "a", Address: "127.0.0.1:8300"}}}, ConfigurationIndex: 1}
	for _, st := range [][]byte{nil, []byte("x"), bytes.Repeat([]byte{0}, 600), []byte("state.bin\x00SHA256SUMS meta.json"), bytes.Repeat([]byte("consul"), 200)} {
		a := verifC20FuzzSeed(st, m)
		f.Add(a)
		f.Add(a[:len(a)-3])
		b := append([]byte{}, a...)
		b[len(b)/2] ^= 0x40
		f.Add(b)
		f.Add(append(append([]byte{}, a...), verifC20Gzip(verifC20RawMember("state.bin", '0', []byte("more")))...))
	}
	d, _ := os.MkdirTemp("", "verifc20fuzz")
	os.Setenv("TMPDIR", d)
	f.Fuzz(func(t *testing.T, data []byte) {
		_, ve := Verify(bytes.NewReader(data))
		file, meta, re := Read(hclog.NewNullLogger(), bytes.NewReader(data))
		defer func() {
			if file != nil {
				file.Close()
				os.Remove(file.Name())
			}
			if ms, _ := os.ReadDir(d); len(ms) > 64 {
				for _, e := range ms {
					os.Remove(d + "/" + e.Name())
				}
			}
		}()
		if (ve == nil) != (re == nil) {
			t.Fatalf("VERIF C20/verify-and-restore-path-disagree: Verify=%v Read=%v", ve, re)
		}
		if re != nil {
			if file != nil {
				t.Fatalf("VERIF C20/read-error-returns-file: %v", re)
			}
			return
		}
		state, err := io.ReadAll(file)
		if err != nil {
			t.Fatalf("read extracted state: %v", err)
		}
		// independent walk
		gz, err := gzip.NewReader(bytes.NewReader(data))
		if err != nil {
			t.Fatalf("VERIF C20/accepted-not-gzip: %v", err)
		}
		tr := tar.NewReader(gz)
		sums := map[string][]string{}
		var metaBlobs [][]byte
		for {
			h, err := tr.Next()
			if err != nil {
				break
			}
			b, _ := io.ReadAll(tr)
			switch h.Name {
			case "SHA256SUMS":
				for _, line := range strings.Split(string(b), "\n") {
					fs := strings.Fields(line)
					if len(fs) == 2 {
						sums[fs[1]] = append(sums[fs[1]], strings.ToLower(fs[0]))
					}
				}
			case "meta.json":
				metaBlobs = append(metaBlobs, b)
			}
		}
		has := func(name string, b []byte) bool {
			want := sha256.Sum256(b)
			for _, s := range sums[name] {
				if s == hex.EncodeToString(want[:]) {
					return true
				}
			}
			return false
		}
		if !has("state.bin", state) {
			t.Fatalf("VERIF C20/accepted-state-not-vouched-by-checksums: extracted %d bytes whose SHA-256 is not listed for state.bin (%v)", len(state), sums["state.bin"])
		}
		okMeta := false
		var all []byte
		for _, mb := range metaBlobs {
			all = append(all, mb...)
		}
		for _, cand := range append(metaBlobs, all) {
			var mm raft.SnapshotMeta
			if json.Unmarshal(cand, &mm) == nil && reflect.DeepEqual(&mm, meta) && has("meta.json", cand) {
				okMeta = true
			}
		}
		if !okMeta {
			t.Fatalf("VERIF C20/accepted-meta-not-vouched-by-checksums: returned metadata %+v is not the decoding of a checksummed meta.json", meta)
		}
		// round trip of what was extracted
		if meta.Size == int64(len(state)) {
			var buf bytes.Buffer
			if err := write(&buf, meta, bytes.NewReader(state)); err != nil {
				t.Fatalf("VERIF C20/rewrite-failed: %v", err)
			}
			var out bytes.Buffer
			var m2 raft.SnapshotMeta
			if err := read(&buf, &m2, &out); err != nil || !bytes.Equal(out.Bytes(), state) || !reflect.DeepEqual(&m2, meta) {
				t.Fatalf("VERIF C20/roundtrip-after-accept: err=%v", err)
			}
		}
	})
}
