package acl

// Native coverage-guided fuzzing for C08 (thorough tier): the fuzzer's bytes drive rapid's generators
// (rapid.MakeFuzz), so coverage feedback steers the SAME structured policy-set generator and the same oracle
// (independent rule-semantics model, default-policy chaining, policy-order permutation) as TestVerifC08Model.

import (
	"testing"

	"pgregory.net/rapid"
)

func FuzzVerifC08Model(f *testing.F) {
	rec := verifC08Recorder()
	var env *verifC08Env
	f.Fuzz(rapid.MakeFuzz(func(t *rapid.T) {
		if env == nil {
			env = verifC08NewEnv(t, rec)
		}
		verifC08RunSet(t, rec, env, verifC08GenSet(t), false)
	}))
}
