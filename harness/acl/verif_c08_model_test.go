package acl

// C08 (a) — ACL decisions follow the documented rule semantics.
//
// Generated: sets of 1..4 policies with exact and prefix rules for every resource kind over a prefix-rich
// name universe, all access levels the validator admits, duplicates across (and inside) policies, scalar
// rules. The set is compiled with NewPolicyAuthorizer / NewPolicyAuthorizerWithDefaults and EVERY method of
// the Authorizer interface is called for every universe name and a fresh name behind each universe name.
//
// Oracle:
//   1. an independent semantics model written from the property statement and the ACL documentation
//      (exact rule wins, else longest matching prefix rule, else no decision -> default policy; several
//      rules for one name merge by deny > write > list > read; intentions default from the service rule;
//      mesh/peering fall back to operator; *Prefix/*All/*Any/wildcard methods from their doc comments);
//   2. consequences the doc comments of the special methods promise, checked against the plain per-name
//      methods of the same authorizer (ServiceReadAll=Allow => every ServiceRead=Allow, ...);
//   3. the decision vector is invariant under permutation of the policy list;
//   4. compiling a policy set leaves the parsed policy objects it was given unchanged, and a token that
//      holds only ONE of those (shared) policy objects afterwards decides as that policy alone does.
//
// Deliberately NOT asserted: which of two readings applies when one policy gives a service rule an explicit
// `intentions` level and another policy gives the same service name a rule without one (the statement does
// not fix whether the implied intentions level takes part in the precedence merge): both are accepted.

import (
	"encoding/json"
	"fmt"
	"os"
	"reflect"
	"sort"
	"strings"
	"testing"

	"github.com/hashicorp/consul/internal/verifkit"
	"pgregory.net/rapid"
)

// verifC08Recorder: the two C08 targets (packages acl and agent/structs) run with the same shard numbers; the
// replay file name is derived from VERIF_SHARD, so tag it with the package to keep the files apart.
func verifC08Recorder() *verifkit.Rec {
	if s := os.Getenv("VERIF_SHARD"); !strings.HasPrefix(s, "acl") {
		os.Setenv("VERIF_SHARD", "acl"+s)
	}
	return verifkit.For("C08")
}

// ---------------------------------------------------------------------------------------------------
// case encoding

type verifC08Rule struct {
	Kind       string `json:"k"` // agent event key node query service session
	Prefix     bool   `json:"p,omitempty"`
	Name       string `json:"n"`
	Access     string `json:"a"`
	Intentions string `json:"i,omitempty"` // service rules only
}

type verifC08Policy struct {
	Rules   []verifC08Rule    `json:"rules"`
	Scalars map[string]string `json:"scalars,omitempty"` // acl keyring operator mesh peering
}

type verifC08Set struct {
	Kind     string           `json:"kind"` // "acl-policy-set"
	Policies []verifC08Policy `json:"policies"`
	Perm     []int            `json:"perm"`
}

var (
	verifC08Names   = []string{"", "w", "we", "web", "web-", "web-api", "x"}
	verifC08Kinds   = []string{"agent", "event", "key", "node", "query", "service", "session"}
	verifC08Scalars = []string{"acl", "keyring", "operator", "mesh", "peering"}
)

// verifC08QueryNames: every universe name plus, behind each, a fresh name no rule can name exactly
// (its longest candidate prefix is exactly that universe name).
func verifC08QueryNames() []string {
	out := append([]string{}, verifC08Names...)
	for _, n := range verifC08Names {
		out = append(out, n+"~")
	}
	return out
}

func verifC08Build(p verifC08Policy) *Policy {
	out := &Policy{}
	for _, r := range p.Rules {
		switch r.Kind {
		case "agent":
			x := &AgentRule{Node: r.Name, Policy: r.Access}
			if r.Prefix {
				out.AgentPrefixes = append(out.AgentPrefixes, x)
			} else {
				out.Agents = append(out.Agents, x)
			}
		case "event":
			x := &EventRule{Event: r.Name, Policy: r.Access}
			if r.Prefix {
				out.EventPrefixes = append(out.EventPrefixes, x)
			} else {
				out.Events = append(out.Events, x)
			}
		case "key":
			x := &KeyRule{Prefix: r.Name, Policy: r.Access}
			if r.Prefix {
				out.KeyPrefixes = append(out.KeyPrefixes, x)
			} else {
				out.Keys = append(out.Keys, x)
			}
		case "node":
			x := &NodeRule{Name: r.Name, Policy: r.Access}
			if r.Prefix {
				out.NodePrefixes = append(out.NodePrefixes, x)
			} else {
				out.Nodes = append(out.Nodes, x)
			}
		case "query":
			x := &PreparedQueryRule{Prefix: r.Name, Policy: r.Access}
			if r.Prefix {
				out.PreparedQueryPrefixes = append(out.PreparedQueryPrefixes, x)
			} else {
				out.PreparedQueries = append(out.PreparedQueries, x)
			}
		case "service":
			x := &ServiceRule{Name: r.Name, Policy: r.Access, Intentions: r.Intentions}
			if r.Prefix {
				out.ServicePrefixes = append(out.ServicePrefixes, x)
			} else {
				out.Services = append(out.Services, x)
			}
		case "session":
			x := &SessionRule{Node: r.Name, Policy: r.Access}
			if r.Prefix {
				out.SessionPrefixes = append(out.SessionPrefixes, x)
			} else {
				out.Sessions = append(out.Sessions, x)
			}
		}
	}
	out.ACL = p.Scalars["acl"]
	out.Keyring = p.Scalars["keyring"]
	out.Operator = p.Scalars["operator"]
	out.Mesh = p.Scalars["mesh"]
	out.Peering = p.Scalars["peering"]
	return out
}

func verifC08BuildAll(ps []verifC08Policy) []*Policy {
	out := make([]*Policy, len(ps))
	for i, p := range ps {
		out[i] = verifC08Build(p)
	}
	return out
}

// ---------------------------------------------------------------------------------------------------
// the semantics model (independent of policy_merger.go / policy_authorizer.go)

func verifC08Rank(a string) int {
	switch a {
	case "deny":
		return 4
	case "write":
		return 3
	case "list":
		return 2
	case "read":
		return 1
	}
	return 0
}

// stronger of two access levels: deny > write > list > read > (none)
func verifC08Stronger(a, b string) string {
	if verifC08Rank(a) >= verifC08Rank(b) {
		return a
	}
	return b
}

func verifC08ImpliedIntentions(serviceAccess string) string {
	if serviceAccess == "read" || serviceAccess == "write" {
		return "read" // docs: service:read / service:write implicitly grant intentions:read
	}
	return "deny"
}

type verifC08Slot struct {
	kind   string
	prefix bool
	name   string
}

type verifC08Model struct {
	exact  map[string]map[string]string // kind -> name -> merged access
	prefix map[string]map[string]string
	scalar map[string]string
	mixed  map[verifC08Slot]bool // slots (and scalars, kind "") for which different levels were merged (signature detail only)
}

// verifC08NewModel merges the rules of all policies. intentionsPerRule selects the reading used for a service
// name that has both rules with and rules without an explicit intentions level (see header): false = explicit
// levels merge, the implied level applies only when no rule states one; true = every rule contributes its
// effective (explicit or implied) level to the precedence merge.
func verifC08NewModel(ps []verifC08Policy, intentionsPerRule bool) *verifC08Model {
	m := &verifC08Model{exact: map[string]map[string]string{}, prefix: map[string]map[string]string{}, scalar: map[string]string{}, mixed: map[verifC08Slot]bool{}}
	slot := func(r verifC08Rule, kind string) map[string]string {
		top := m.exact
		if r.Prefix {
			top = m.prefix
		}
		if top[kind] == nil {
			top[kind] = map[string]string{}
		}
		return top[kind]
	}
	explicit := map[verifC08Slot]string{} // slot -> merged explicit intentions
	for _, p := range ps {
		for _, r := range p.Rules {
			s := slot(r, r.Kind)
			if s[r.Name] != "" && s[r.Name] != r.Access {
				m.mixed[verifC08Slot{r.Kind, r.Prefix, r.Name}] = true
				if r.Kind == "service" {
					m.mixed[verifC08Slot{"intention", r.Prefix, r.Name}] = true
				}
			}
			s[r.Name] = verifC08Stronger(s[r.Name], r.Access)
			if r.Kind == "service" {
				is := slot(r, "intention")
				if intentionsPerRule {
					eff := r.Intentions
					if eff == "" {
						eff = verifC08ImpliedIntentions(r.Access)
					}
					is[r.Name] = verifC08Stronger(is[r.Name], eff)
				} else {
					k := verifC08Slot{"", r.Prefix, r.Name}
					explicit[k] = verifC08Stronger(explicit[k], r.Intentions)
					is[r.Name] = "" // filled below
				}
			}
		}
		for k, v := range p.Scalars {
			if m.scalar[k] != "" && m.scalar[k] != v {
				m.mixed[verifC08Slot{"", false, k}] = true
			}
			m.scalar[k] = verifC08Stronger(m.scalar[k], v)
		}
	}
	if !intentionsPerRule {
		for _, pfx := range []bool{false, true} {
			top := m.exact
			if pfx {
				top = m.prefix
			}
			for name := range top["intention"] {
				if e := explicit[verifC08Slot{"", pfx, name}]; e != "" {
					top["intention"][name] = e
				} else {
					top["intention"][name] = verifC08ImpliedIntentions(top["service"][name])
				}
			}
		}
	}
	return m
}

// find: the rule that decides a name — the exact rule, else the longest prefix rule, else none.
func (m *verifC08Model) find(kind, name string) (access, clause string) {
	if a, ok := m.exact[kind][name]; ok {
		if m.mixed[verifC08Slot{kind, false, name}] {
			return a, "exact-rule-merged"
		}
		return a, "exact-rule"
	}
	a, clause := m.longestPrefix(kind, name)
	if clause == "prefix" {
		clause = "longest-prefix-rule"
		if m.mixed[verifC08Slot{kind, true, m.longestPrefixName(kind, name)}] {
			clause = "longest-prefix-rule-merged"
		}
	}
	return a, clause
}

func (m *verifC08Model) longestPrefixName(kind, name string) string {
	best := ""
	for p := range m.prefix[kind] {
		if strings.HasPrefix(name, p) && len(p) >= len(best) {
			best = p
		}
	}
	return best
}

func (m *verifC08Model) longestPrefix(kind, name string) (access, clause string) {
	best := -1
	for p, a := range m.prefix[kind] {
		if strings.HasPrefix(name, p) && len(p) > best {
			best, access = len(p), a
		}
	}
	if best < 0 {
		return "", "no-rule"
	}
	return access, "prefix"
}

func verifC08Grant(access, need string) EnforcementDecision {
	switch access {
	case "":
		return Default
	case "write":
		return Allow
	case "list":
		if need == "list" || need == "read" {
			return Allow
		}
	case "read":
		if need == "read" {
			return Allow
		}
	}
	return Deny
}

// every rule of the kind (exact and prefix slots)
func (m *verifC08Model) all(kind string) []string {
	var out []string
	for _, a := range m.exact[kind] {
		out = append(out, a)
	}
	for _, a := range m.prefix[kind] {
		out = append(out, a)
	}
	return out
}

// anyGrants: "is there anything of this kind the token may <need>": Allow if some rule grants it; otherwise a
// catch-all prefix rule (which then does not grant it) makes it Deny; otherwise no decision.
func (m *verifC08Model) anyGrants(kind, need string) EnforcementDecision {
	for _, a := range m.all(kind) {
		if verifC08Grant(a, need) == Allow {
			return Allow
		}
	}
	if _, ok := m.prefix[kind][""]; ok {
		return Deny
	}
	return Default
}

// allGrant: "may the token <need> everything of this kind": Deny if some rule does not grant it; otherwise
// Allow if a catch-all prefix rule grants it; otherwise no decision.
func (m *verifC08Model) allGrant(kind, need string) EnforcementDecision {
	for _, a := range m.all(kind) {
		if verifC08Grant(a, need) != Allow {
			return Deny
		}
	}
	if _, ok := m.prefix[kind][""]; ok {
		return Allow
	}
	return Default
}

// underPrefix: does some rule (exact or prefix) whose name lies within/under pfx fail to grant `need`?
func (m *verifC08Model) underPrefixRefuses(kind, pfx, need string) bool {
	for n, a := range m.exact[kind] {
		if strings.HasPrefix(n, pfx) && verifC08Grant(a, need) != Allow {
			return true
		}
	}
	for n, a := range m.prefix[kind] {
		if strings.HasPrefix(n, pfx) && verifC08Grant(a, need) != Allow {
			return true
		}
	}
	return false
}

// wholePrefix: KeyWritePrefix / ServiceReadPrefix doc comments: the longest prefix rule applying to pfx must
// grant the access and nothing within/under pfx may refuse it. No applicable prefix rule and no refusal: no decision.
func (m *verifC08Model) wholePrefix(kind, pfx, need string) EnforcementDecision {
	base, clause := m.longestPrefix(kind, pfx)
	if clause == "prefix" && verifC08Grant(base, need) != Allow {
		return Deny
	}
	if m.underPrefixRefuses(kind, pfx, need) {
		return Deny
	}
	if clause == "prefix" {
		return Allow
	}
	return Default
}

type verifC08Q struct {
	Method string
	Arg    string
	Peer   string
}

func (q verifC08Q) String() string {
	if q.Peer != "" {
		return fmt.Sprintf("%s(%q,peer=%s)", q.Method, q.Arg, q.Peer)
	}
	return fmt.Sprintf("%s(%q)", q.Method, q.Arg)
}

var verifC08Named = map[string][2]string{ // method -> (kind, needed access)
	"AgentRead": {"agent", "read"}, "AgentWrite": {"agent", "write"},
	"EventRead": {"event", "read"}, "EventWrite": {"event", "write"},
	"KeyRead": {"key", "read"}, "KeyList": {"key", "list"}, "KeyWrite": {"key", "write"},
	"NodeRead": {"node", "read"}, "NodeWrite": {"node", "write"},
	"PreparedQueryRead": {"query", "read"}, "PreparedQueryWrite": {"query", "write"},
	"ServiceRead": {"service", "read"}, "ServiceWrite": {"service", "write"},
	"SessionRead": {"session", "read"}, "SessionWrite": {"session", "write"},
	"IntentionRead": {"intention", "read"}, "IntentionWrite": {"intention", "write"},
}

// eval returns the model's three-valued decision and the class of the deciding clause (for the signature).
func (m *verifC08Model) eval(q verifC08Q) (EnforcementDecision, string) {
	sc := func(k, need string) EnforcementDecision { return verifC08Grant(m.scalar[k], need) }
	fallback := func(k, need string) EnforcementDecision { // docs: mesh / peering default to operator
		if m.scalar[k] != "" {
			return sc(k, need)
		}
		return sc("operator", need)
	}
	switch q.Method {
	case "ACLRead":
		return sc("acl", "read"), "acl"
	case "ACLWrite":
		return sc("acl", "write"), "acl"
	case "Snapshot": // docs: snapshot requires acl = "write"
		return sc("acl", "write"), "snapshot"
	case "KeyringRead":
		return sc("keyring", "read"), "keyring"
	case "KeyringWrite":
		return sc("keyring", "write"), "keyring"
	case "OperatorRead":
		return sc("operator", "read"), "operator"
	case "OperatorWrite":
		return sc("operator", "write"), "operator"
	case "MeshRead":
		return fallback("mesh", "read"), "mesh"
	case "MeshWrite":
		return fallback("mesh", "write"), "mesh"
	case "PeeringRead":
		return fallback("peering", "read"), "peering"
	case "PeeringWrite":
		return fallback("peering", "write"), "peering"
	case "IntentionDefaultAllow": // never decided by a policy: always the default policy
		return Default, "intention-default"
	case "TrafficPermissionsRead", "TrafficPermissionsWrite": // identity rules are deprecated and dropped by the validator
		return Default, "traffic-permissions"
	case "NodeReadAll":
		return m.allGrant("node", "read"), "NodeReadAll"
	case "ServiceReadAll":
		return m.allGrant("service", "read"), "ServiceReadAll"
	case "ServiceWriteAny":
		return m.anyGrants("service", "write"), "ServiceWriteAny"
	case "KeyWritePrefix":
		return m.wholePrefix("key", q.Arg, "write"), "KeyWritePrefix"
	case "ServiceReadPrefix":
		return m.wholePrefix("service", q.Arg, "read"), "ServiceReadPrefix"
	}
	kn, ok := verifC08Named[q.Method]
	if !ok {
		panic("verif: model has no clause for " + q.Method)
	}
	kind, need := kn[0], kn[1]
	if q.Peer != "" && (q.Method == "NodeRead" || q.Method == "ServiceRead") {
		// doc comment: a resource imported from a peer is readable by a locally authenticated service
		// (service:write on some name) or by whoever may read all local nodes/services.
		if m.anyGrants("service", "write") == Allow {
			return Allow, q.Method + "-peer"
		}
		return m.allGrant(kind, "read"), q.Method + "-peer"
	}
	if kind == "intention" && q.Arg == "*" {
		if need == "read" { // wildcard read: any intention readable
			return m.anyGrants("intention", "read"), "IntentionRead-wildcard"
		}
		return m.allGrant("intention", "write"), "IntentionWrite-wildcard"
	}
	a, clause := m.find(kind, q.Arg)
	return verifC08Grant(a, need), kind + "/" + clause
}

// verifC08Chained: what the default policy makes of an undecided (Default) answer.
func verifC08Chained(d EnforcementDecision, q verifC08Q, defaultAllow bool) EnforcementDecision {
	if d != Default {
		return d
	}
	switch q.Method {
	case "ACLRead", "ACLWrite", "Snapshot": // "allow" default policy allows all NON-management actions
		return Deny
	}
	if defaultAllow {
		return Allow
	}
	return Deny
}

// ---------------------------------------------------------------------------------------------------
// calling the real authorizer

var verifC08Calls = map[string]func(a Authorizer, arg string, ctx *AuthorizerContext) EnforcementDecision{
	"ACLRead":                 func(a Authorizer, _ string, c *AuthorizerContext) EnforcementDecision { return a.ACLRead(c) },
	"ACLWrite":                func(a Authorizer, _ string, c *AuthorizerContext) EnforcementDecision { return a.ACLWrite(c) },
	"AgentRead":               func(a Authorizer, s string, c *AuthorizerContext) EnforcementDecision { return a.AgentRead(s, c) },
	"AgentWrite":              func(a Authorizer, s string, c *AuthorizerContext) EnforcementDecision { return a.AgentWrite(s, c) },
	"EventRead":               func(a Authorizer, s string, c *AuthorizerContext) EnforcementDecision { return a.EventRead(s, c) },
	"EventWrite":              func(a Authorizer, s string, c *AuthorizerContext) EnforcementDecision { return a.EventWrite(s, c) },
	"IntentionDefaultAllow":   func(a Authorizer, _ string, c *AuthorizerContext) EnforcementDecision { return a.IntentionDefaultAllow(c) },
	"IntentionRead":           func(a Authorizer, s string, c *AuthorizerContext) EnforcementDecision { return a.IntentionRead(s, c) },
	"IntentionWrite":          func(a Authorizer, s string, c *AuthorizerContext) EnforcementDecision { return a.IntentionWrite(s, c) },
	"KeyList":                 func(a Authorizer, s string, c *AuthorizerContext) EnforcementDecision { return a.KeyList(s, c) },
	"KeyRead":                 func(a Authorizer, s string, c *AuthorizerContext) EnforcementDecision { return a.KeyRead(s, c) },
	"KeyWrite":                func(a Authorizer, s string, c *AuthorizerContext) EnforcementDecision { return a.KeyWrite(s, c) },
	"KeyWritePrefix":          func(a Authorizer, s string, c *AuthorizerContext) EnforcementDecision { return a.KeyWritePrefix(s, c) },
	"KeyringRead":             func(a Authorizer, _ string, c *AuthorizerContext) EnforcementDecision { return a.KeyringRead(c) },
	"KeyringWrite":            func(a Authorizer, _ string, c *AuthorizerContext) EnforcementDecision { return a.KeyringWrite(c) },
	"MeshRead":                func(a Authorizer, _ string, c *AuthorizerContext) EnforcementDecision { return a.MeshRead(c) },
	"MeshWrite":               func(a Authorizer, _ string, c *AuthorizerContext) EnforcementDecision { return a.MeshWrite(c) },
	"PeeringRead":             func(a Authorizer, _ string, c *AuthorizerContext) EnforcementDecision { return a.PeeringRead(c) },
	"PeeringWrite":            func(a Authorizer, _ string, c *AuthorizerContext) EnforcementDecision { return a.PeeringWrite(c) },
	"NodeRead":                func(a Authorizer, s string, c *AuthorizerContext) EnforcementDecision { return a.NodeRead(s, c) },
	"NodeReadAll":             func(a Authorizer, _ string, c *AuthorizerContext) EnforcementDecision { return a.NodeReadAll(c) },
	"NodeWrite":               func(a Authorizer, s string, c *AuthorizerContext) EnforcementDecision { return a.NodeWrite(s, c) },
	"OperatorRead":            func(a Authorizer, _ string, c *AuthorizerContext) EnforcementDecision { return a.OperatorRead(c) },
	"OperatorWrite":           func(a Authorizer, _ string, c *AuthorizerContext) EnforcementDecision { return a.OperatorWrite(c) },
	"PreparedQueryRead":       func(a Authorizer, s string, c *AuthorizerContext) EnforcementDecision { return a.PreparedQueryRead(s, c) },
	"PreparedQueryWrite":      func(a Authorizer, s string, c *AuthorizerContext) EnforcementDecision { return a.PreparedQueryWrite(s, c) },
	"ServiceRead":             func(a Authorizer, s string, c *AuthorizerContext) EnforcementDecision { return a.ServiceRead(s, c) },
	"ServiceReadAll":          func(a Authorizer, _ string, c *AuthorizerContext) EnforcementDecision { return a.ServiceReadAll(c) },
	"ServiceReadPrefix":       func(a Authorizer, s string, c *AuthorizerContext) EnforcementDecision { return a.ServiceReadPrefix(s, c) },
	"ServiceWrite":            func(a Authorizer, s string, c *AuthorizerContext) EnforcementDecision { return a.ServiceWrite(s, c) },
	"ServiceWriteAny":         func(a Authorizer, _ string, c *AuthorizerContext) EnforcementDecision { return a.ServiceWriteAny(c) },
	"SessionRead":             func(a Authorizer, s string, c *AuthorizerContext) EnforcementDecision { return a.SessionRead(s, c) },
	"SessionWrite":            func(a Authorizer, s string, c *AuthorizerContext) EnforcementDecision { return a.SessionWrite(s, c) },
	"Snapshot":                func(a Authorizer, _ string, c *AuthorizerContext) EnforcementDecision { return a.Snapshot(c) },
	"TrafficPermissionsRead":  func(a Authorizer, s string, c *AuthorizerContext) EnforcementDecision { return a.TrafficPermissionsRead(s, c) },
	"TrafficPermissionsWrite": func(a Authorizer, s string, c *AuthorizerContext) EnforcementDecision { return a.TrafficPermissionsWrite(s, c) },
}

var verifC08Unnamed = map[string]bool{
	"ACLRead": true, "ACLWrite": true, "IntentionDefaultAllow": true, "KeyringRead": true, "KeyringWrite": true,
	"MeshRead": true, "MeshWrite": true, "PeeringRead": true, "PeeringWrite": true, "NodeReadAll": true,
	"OperatorRead": true, "OperatorWrite": true, "ServiceReadAll": true, "ServiceWriteAny": true, "Snapshot": true,
}

// verifC08Queries: every Authorizer method x every query name (methods without a name once), plus the
// wildcard forms and the peer-context forms. The method set is taken from the interface by reflection so a
// method added to Authorizer cannot silently stay unchecked.
func verifC08Queries(f verifkit.F) []verifC08Q {
	it := reflect.TypeOf((*Authorizer)(nil)).Elem()
	var methods []string
	for i := 0; i < it.NumMethod(); i++ {
		n := it.Method(i).Name
		if n == "ToAllowAuthorizer" {
			continue
		}
		if _, ok := verifC08Calls[n]; !ok {
			f.Fatalf("harness: Authorizer method %s is not covered by the C08 check", n)
		}
		methods = append(methods, n)
	}
	sort.Strings(methods)
	names := verifC08QueryNames()
	var qs []verifC08Q
	for _, m := range methods {
		if verifC08Unnamed[m] {
			qs = append(qs, verifC08Q{Method: m})
			continue
		}
		for _, n := range names {
			qs = append(qs, verifC08Q{Method: m, Arg: n})
		}
		switch m {
		case "IntentionRead", "IntentionWrite", "TrafficPermissionsRead", "TrafficPermissionsWrite":
			qs = append(qs, verifC08Q{Method: m, Arg: "*"})
		case "NodeRead", "ServiceRead":
			qs = append(qs, verifC08Q{Method: m, Arg: "web", Peer: "peerA"}, verifC08Q{Method: m, Arg: "x~", Peer: "peerA"})
		}
	}
	return qs
}

func verifC08Vector(a Authorizer, qs []verifC08Q) []EnforcementDecision {
	out := make([]EnforcementDecision, len(qs))
	for i, q := range qs {
		var ctx *AuthorizerContext
		if q.Peer != "" {
			ctx = &AuthorizerContext{Peer: q.Peer}
		}
		out[i] = verifC08Calls[q.Method](a, q.Arg, ctx)
	}
	return out
}

// ---------------------------------------------------------------------------------------------------
// the check of one policy set

type verifC08Env struct {
	rec *verifkit.Rec
	qs  []verifC08Q
	idx map[verifC08Q]int
}

func verifC08NewEnv(f verifkit.F, rec *verifkit.Rec) *verifC08Env {
	env := &verifC08Env{rec: rec, qs: verifC08Queries(f), idx: map[verifC08Q]int{}}
	for i, q := range env.qs {
		env.idx[q] = i
	}
	return env
}

func verifC08Describe(ps []verifC08Policy) string {
	b, _ := json.Marshal(ps)
	return string(b)
}

func verifC08Classify(c *verifkit.Case, set verifC08Set) (conflict bool) {
	type slot struct {
		kind, name string
		prefix     bool
	}
	seen := map[slot]map[string]int{} // slot -> access -> first policy index
	explicitI, implicitI := map[slot]bool{}, map[slot]bool{}
	for pi, p := range set.Policies {
		inPol := map[slot]string{}
		for _, r := range p.Rules {
			s := slot{r.Kind, r.Name, r.Prefix}
			if prev, ok := inPol[s]; ok && prev != r.Access {
				c.Label("dup=within-policy-different-access")
			}
			inPol[s] = r.Access
			if seen[s] == nil {
				seen[s] = map[string]int{}
			}
			if _, ok := seen[s][r.Access]; !ok {
				seen[s][r.Access] = pi
			}
			if r.Kind == "service" {
				if r.Intentions != "" {
					explicitI[s] = true
				} else {
					implicitI[s] = true
				}
			}
		}
	}
	for s, acc := range seen {
		if len(acc) > 1 {
			pols := map[int]bool{}
			for _, pi := range acc {
				pols[pi] = true
			}
			if len(pols) > 1 {
				conflict = true
				c.Label("conflict=cross-policy")
				if s.prefix {
					c.Label("conflict=cross-policy-prefix-rule")
				} else {
					c.Label("conflict=cross-policy-exact-rule")
				}
				if _, ok := acc["deny"]; ok {
					c.Label("conflict=involves-deny")
				}
				if _, ok := acc["list"]; ok {
					c.Label("conflict=involves-list")
				}
			}
		}
	}
	for s := range explicitI {
		if implicitI[s] {
			c.Label("intentions=explicit-and-implied-on-one-name")
		}
	}
	if len(explicitI) > 0 {
		c.Label("intentions=explicit")
	}
	// overlap classes over the merged view
	m := verifC08NewModel(set.Policies, false)
	for _, k := range verifC08Kinds {
		for n, a := range m.exact[k] {
			if pa, cl := m.longestPrefix(k, n); cl == "prefix" && pa != a {
				c.Label("overlap=exact-vs-prefix")
			}
		}
		for n, a := range m.prefix[k] {
			for n2, a2 := range m.prefix[k] {
				if n != n2 && strings.HasPrefix(n2, n) && a != a2 {
					c.Label("overlap=nested-prefix")
				}
			}
		}
	}
	c.Labelf("policies=%d", len(set.Policies))
	for k, v := range m.scalar {
		if v != "" {
			c.Label("scalar=" + k)
		}
	}
	return conflict
}

// verifC08CheckSet runs every oracle on one policy set. Returns false if a tolerated (known) finding was hit.
func verifC08CheckSet(f verifkit.F, c *verifkit.Case, env *verifC08Env, set verifC08Set) {
	qs := env.qs
	mA := verifC08NewModel(set.Policies, false)
	mB := verifC08NewModel(set.Policies, true)

	newAuthz := func(ps []*Policy) Authorizer {
		a, err := NewPolicyAuthorizer(ps, nil)
		if err != nil {
			f.Fatalf("harness: NewPolicyAuthorizer failed on validator-clean rules: %v", err)
		}
		return a
	}

	// the model's answers, once per query
	wantA := make([]EnforcementDecision, len(qs))
	wantB := make([]EnforcementDecision, len(qs))
	clause := make([]string, len(qs))
	ambiguous := false
	for i, q := range qs {
		wantA[i], clause[i] = mA.eval(q)
		wantB[i], _ = mB.eval(q)
		if wantA[i] != wantB[i] {
			ambiguous = true
		}
	}
	if ambiguous {
		c.Label("intentions=two-readings-differ(accepted-both)")
	}

	// (1) model vs real, undecided answers visible (raw policy authorizer)
	raw := verifC08Vector(newAuthz(verifC08BuildAll(set.Policies)), qs)
	for i, q := range qs {
		if raw[i] != wantA[i] && raw[i] != wantB[i] {
			c.Violation(f, "C08/rule-semantics/"+clause[i], "%s = %s, documented semantics give %s (clause %s)\npolicies: %s",
				q, raw[i], wantA[i], clause[i], verifC08Describe(set.Policies))
		}
	}

	// (2) with a default policy, as ResolveToken chains it
	for _, defAllow := range []bool{false, true} {
		def := DenyAll()
		if defAllow {
			def = AllowAll()
		}
		ch, err := NewPolicyAuthorizerWithDefaults(def, verifC08BuildAll(set.Policies), nil)
		if err != nil {
			f.Fatalf("harness: NewPolicyAuthorizerWithDefaults: %v", err)
		}
		got := verifC08Vector(ch, qs)
		for i, q := range qs {
			wA, wB := verifC08Chained(wantA[i], q, defAllow), verifC08Chained(wantB[i], q, defAllow)
			if got[i] == Default {
				c.Violation(f, "C08/default-policy/undecided", "%s stays undecided behind default policy allow=%v", q, defAllow)
			}
			if got[i] != wA && got[i] != wB {
				key := "C08/rule-semantics/" + clause[i]
				if raw[i] == wantA[i] || raw[i] == wantB[i] {
					key = "C08/default-policy/" + clause[i] // the policy part agreed, the chaining did not
				}
				c.Violation(f, key, "%s = %s behind default policy allow=%v, documented semantics give %s\npolicies: %s",
					q, got[i], defAllow, wA, verifC08Describe(set.Policies))
			}
		}
		verifC08Implications(f, c, ch, qs, got, env.idx, defAllow, set)
	}

	// (3) permutation of the policy list
	if len(set.Perm) == len(set.Policies) {
		perm := make([]verifC08Policy, len(set.Policies))
		for i, j := range set.Perm {
			perm[i] = set.Policies[j]
		}
		pv := verifC08Vector(newAuthz(verifC08BuildAll(perm)), qs)
		for i, q := range qs {
			if pv[i] != raw[i] {
				c.Violation(f, "C08/policy-order-dependence/"+clause[i], "%s = %s with policies in order %v but %s in the given order\npolicies: %s",
					q, pv[i], set.Perm, raw[i], verifC08Describe(set.Policies))
			}
		}
	}

	// (4) the policy objects handed in are shared with other tokens (parsed-policy cache): compiling the set
	// must not change them, and each of them alone must afterwards still decide as that policy alone.
	shared := verifC08BuildAll(set.Policies)
	_ = newAuthz(shared)
	pristine := verifC08BuildAll(set.Policies)
	for i := range shared {
		if reflect.DeepEqual(shared[i], pristine[i]) {
			continue
		}
		// consequence for a token that holds only policy i
		single := verifC08NewModel(set.Policies[i:i+1], false)
		after := verifC08Vector(newAuthz([]*Policy{shared[i]}), qs)
		var diffs []string
		for k, q := range qs {
			if want, _ := single.eval(q); after[k] != want {
				if wb, _ := verifC08NewModel(set.Policies[i:i+1], true).eval(q); after[k] != wb {
					diffs = append(diffs, fmt.Sprintf("%s=%s (policy alone: %s)", q, after[k], want))
				}
			}
		}
		if len(diffs) > 6 {
			diffs = append(diffs[:6], fmt.Sprintf("... %d more", len(diffs)-6))
		}
		if c.Violation(f, "C08/shared-policy-mutated-by-merge",
			"NewPolicyAuthorizer changed the parsed policy object #%d it was given (objects are shared through the parsed-policy cache):\n before %s\n after  %s\n a token holding only this policy now decides: %s\npolicies: %s",
			i, verifC08Dump(pristine[i]), verifC08Dump(shared[i]), strings.Join(diffs, "; "), verifC08Describe(set.Policies)) {
			c.Label("known=shared-policy-mutated")
			break
		}
	}
	env.rec.AddExtraInt("decisions_compared", int64(len(qs))*4)
}

func verifC08Dump(p *Policy) string {
	b, _ := json.Marshal(p.PolicyRules)
	return string(b)
}

// verifC08Implications: what the special methods promise in their doc comments, checked against the plain
// per-name methods of the SAME chained authorizer (independent of the model above).
func verifC08Implications(f verifkit.F, c *verifkit.Case, a Authorizer, qs []verifC08Q, got []EnforcementDecision, idx map[verifC08Q]int, defAllow bool, set verifC08Set) {
	names := verifC08QueryNames()
	at := func(m, n string) EnforcementDecision { return got[idx[verifC08Q{Method: m, Arg: n}]] }
	fail := func(key, format string, args ...any) {
		c.Violation(f, "C08/special-method-contradicts-plain/"+key, format+"\n(default policy allow=%v) policies: %s",
			append(args, defAllow, verifC08Describe(set.Policies))...)
	}
	for _, pair := range [][2]string{{"NodeReadAll", "NodeRead"}, {"ServiceReadAll", "ServiceRead"}} {
		if at(pair[0], "") == Allow {
			for _, n := range names {
				if at(pair[1], n) != Allow {
					fail(pair[0], "%s = Allow but %s(%q) = %s", pair[0], pair[1], n, at(pair[1], n))
				}
			}
		}
	}
	if at("IntentionWrite", "*") == Allow {
		for _, n := range names {
			if at("IntentionWrite", n) != Allow {
				fail("IntentionWrite-wildcard", "IntentionWrite(*) = Allow but IntentionWrite(%q) = %s", n, at("IntentionWrite", n))
			}
		}
	}
	for _, pair := range [][2]string{{"KeyWritePrefix", "KeyWrite"}, {"ServiceReadPrefix", "ServiceRead"}} {
		for _, p := range names {
			if at(pair[0], p) != Allow {
				continue
			}
			for _, n := range names {
				if strings.HasPrefix(n, p) && at(pair[1], n) != Allow {
					fail(pair[0], "%s(%q) = Allow but %s(%q) = %s", pair[0], p, pair[1], n, at(pair[1], n))
				}
			}
		}
	}
	// "any": Allow <=> some name is allowed (names: universe + a fresh name behind every universe name)
	for _, pair := range [][3]string{{"ServiceWriteAny", "", "ServiceWrite"}, {"IntentionRead", "*", "IntentionRead"}} {
		anyD := at(pair[0], pair[1])
		witness, found := "", false
		for _, n := range names {
			if at(pair[2], n) == Allow {
				witness, found = n, true
				break
			}
		}
		label := pair[0]
		if pair[1] == "*" {
			label += "-wildcard"
		}
		if anyD == Allow && !found {
			fail(label, "%s(%s) = Allow but %s allows none of %q", pair[0], pair[1], pair[2], names)
		}
		if anyD != Allow && found {
			fail(label, "%s(%s) = %s but %s(%q) = Allow", pair[0], pair[1], anyD, pair[2], witness)
		}
	}
}

// ---------------------------------------------------------------------------------------------------
// generator

func verifC08GenSet(t *rapid.T) verifC08Set {
	set := verifC08Set{Kind: "acl-policy-set"}
	np := rapid.SampledFrom([]int{1, 2, 2, 2, 3, 3, 4}).Draw(t, "npolicies")
	var all []verifC08Rule
	access := func(kind, label string) string {
		if kind == "key" {
			return rapid.SampledFrom([]string{"deny", "read", "list", "write"}).Draw(t, label)
		}
		return rapid.SampledFrom([]string{"deny", "read", "write"}).Draw(t, label)
	}
	// most cases concentrate on a few kinds so that names collide; some spread over all kinds
	focus := map[string]bool{}
	nf := rapid.SampledFrom([]int{1, 2, 3, 7}).Draw(t, "nfocus")
	for _, k := range rapid.Permutation(verifC08Kinds).Draw(t, "focus")[:nf] {
		focus[k] = true
	}
	for pi := 0; pi < np; pi++ {
		p := verifC08Policy{Rules: []verifC08Rule{}}
		var mine []verifC08Rule
		for _, k := range verifC08Kinds {
			max := 1
			if focus[k] {
				max = 4
			}
			n := rapid.IntRange(0, max).Draw(t, "nrules")
			for i := 0; i < n; i++ {
				r := verifC08Rule{Kind: k}
				var same []verifC08Rule // rules of EARLIER policies of this kind
				for _, e := range all {
					if e.Kind == k {
						same = append(same, e)
					}
				}
				if len(same) > 0 && rapid.IntRange(0, 2).Draw(t, "reuse") == 0 {
					e := rapid.SampledFrom(same).Draw(t, "slot") // same (kind, exact|prefix, name) again
					r.Prefix, r.Name = e.Prefix, e.Name
				} else {
					r.Prefix = rapid.Bool().Draw(t, "prefix")
					r.Name = rapid.SampledFrom(verifC08Names).Draw(t, "name")
				}
				r.Access = access(k, "access")
				if k == "service" {
					r.Intentions = rapid.SampledFrom([]string{"", "", "", "deny", "read", "write"}).Draw(t, "intentions")
				}
				// a second rule for the same slot INSIDE one policy is kept only now and then (the policy
				// endpoint rejects such text; it only survives in legacy data)
				dup := false
				for _, e := range p.Rules {
					if e.Kind == r.Kind && e.Prefix == r.Prefix && e.Name == r.Name {
						dup = true
					}
				}
				if dup && rapid.IntRange(0, 7).Draw(t, "keepdup") != 0 {
					continue
				}
				p.Rules = append(p.Rules, r)
				mine = append(mine, r)
			}
		}
		all = append(all, mine...)
		for _, s := range verifC08Scalars {
			if v := rapid.SampledFrom([]string{"", "", "", "deny", "read", "write"}).Draw(t, s); v != "" {
				if p.Scalars == nil {
					p.Scalars = map[string]string{}
				}
				p.Scalars[s] = v
			}
		}
		set.Policies = append(set.Policies, p)
	}
	ix := make([]int, np)
	for i := range ix {
		ix[i] = i
	}
	set.Perm = rapid.Permutation(ix).Draw(t, "perm")
	return set
}

func verifC08RunSet(f verifkit.F, rec *verifkit.Rec, env *verifC08Env, set verifC08Set, replay bool) {
	c := rec.NewCase()
	defer c.GuardPanic(f, "C08/panic")
	c.Op(set)
	if replay {
		c.Label("replay")
	}
	c.Label("target=acl-model")
	if verifC08Classify(c, set) {
		c.NonTrivial() // >= 2 policies give different access for the same (kind, exact|prefix, name)
	}
	verifC08CheckSet(f, c, env, set)
	c.Done()
}

// TestVerifC08Model: generated policy sets against the semantics model.
func TestVerifC08Model(t *testing.T) {
	rec := verifC08Recorder()
	defer rec.Flush()
	env := verifC08NewEnv(t, rec)
	rec.SetExtra("acl_queries_per_authorizer", fmt.Sprint(len(env.qs)))
	rapid.Check(t, func(t *rapid.T) {
		verifC08RunSet(t, rec, env, verifC08GenSet(t), false)
	})
}

// TestVerifC08Replay re-executes saved acl-level cases (ops[0].kind == "acl-policy-set") without rapid.
func TestVerifC08Replay(t *testing.T) {
	rec := verifC08Recorder()
	defer rec.Flush()
	env := verifC08NewEnv(t, rec)
	for _, path := range verifkit.ReplayFiles("C08") {
		rp, err := verifkit.LoadReplay(path)
		if err != nil {
			t.Fatalf("%v", err)
		}
		if len(rp.Ops) == 0 {
			continue
		}
		var set verifC08Set
		if err := json.Unmarshal(rp.Ops[0], &set); err != nil || set.Kind != "acl-policy-set" {
			continue // a case of another C08 target (agent/structs)
		}
		t.Logf("replaying %s", path)
		verifC08RunSet(t, rec, env, set, true)
	}
}
